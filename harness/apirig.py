"""A real Reactor/API/Configuration with real neighbors, RIBs and Peers (never connected), and a
recording stand-in for Processes.  Used by C14, C18, C20."""

from __future__ import annotations

import asyncio

DEFAULT_CONF = """
neighbor 127.0.0.2 { router-id 1.2.3.4; local-address 127.0.0.1; local-as 65000; peer-as 65001;
  family { ipv4 unicast; ipv6 unicast; ipv4 nlri-mpls; ipv4 mpls-vpn; ipv4 flow; l2vpn vpls; } }
neighbor 127.0.0.3 { router-id 1.2.3.4; local-address 127.0.0.1; local-as 65000; peer-as 65000;
  family { ipv4 unicast; ipv6 unicast; ipv4 nlri-mpls; ipv4 mpls-vpn; ipv4 flow; l2vpn vpls; } }
neighbor 127.0.0.4 { router-id 1.2.3.4; local-address 127.0.0.9; local-as 65010; peer-as 65001;
  family { ipv4 unicast; ipv6 unicast; ipv4 nlri-mpls; ipv4 mpls-vpn; ipv4 flow; l2vpn vpls; } }
"""


class RecProcesses:
    """Records every call; the answer_* family is what the API process would read back."""

    def __init__(self):
        self.log = []
        self._ack = True
        self._sync = False

    def get_sync(self, service):
        return self._sync

    def get_ack(self, service):
        return self._ack

    async def flush_write_queue(self):
        return None

    def __getattr__(self, name):
        if name.startswith('__'):
            raise AttributeError(name)
        is_async = name.endswith('_async') or name in ('answer_done', 'answer_error', 'answer', 'write_async')

        def rec(*a, **k):
            self.log.append((name, a, k))
            if is_async:

                async def nothing():
                    return None

                return nothing()
            return None

        return rec


class Rig:
    def __init__(self, conf_text: str = DEFAULT_CONF, api_version: int = 6, service: str = 'svc'):
        from exabgp.environment import getenv
        from exabgp.configuration.configuration import Configuration
        from exabgp.reactor.loop import Reactor
        from exabgp.reactor.peer import Peer

        getenv().api.version = api_version
        self.service = service
        self.configuration = Configuration([conf_text], text=True)
        if not self.configuration.reload():
            raise RuntimeError(f'rig configuration rejected: {self.configuration.error}')
        self.reactor = Reactor(self.configuration)
        for key, n in self.configuration.neighbors.items():
            n.api['processes'] = [service]
            self.reactor._peers[key] = Peer(n, self.reactor)
        self.processes = RecProcesses()
        self.reactor.processes = self.processes
        self.loop = asyncio.new_event_loop()

    def close(self):
        self.loop.close()

    def clear_ribs(self):
        for n in self.configuration.neighbors.values():
            n.rib.outgoing.clear()
            n.rib.outgoing.clear_cache()

    def neighbors(self):
        return self.configuration.neighbors

    def rib_snapshot(self):
        """neighbor short name -> sorted list of route descriptions in the outgoing cache"""
        snap = {}
        for key, n in self.configuration.neighbors.items():
            name = str(n.session.peer_address)
            snap[name] = sorted(r.extensive() if hasattr(r, 'extensive') else str(r) for r in n.rib.outgoing.cached_routes())
        return snap

    def routes(self):
        out = {}
        for key, n in self.configuration.neighbors.items():
            out[str(n.session.peer_address)] = list(n.rib.outgoing.cached_routes())
        return out

    def command(self, line: str):
        """Run one API command to completion (handler + its scheduled callbacks).
        -> (handler result, recorded Processes calls)"""
        self.processes.log = []

        async def go():
            ok = await self.reactor.api.process_async(self.reactor, self.service, line)
            for _ in range(50):
                if not self.reactor.asynchronous._async:
                    break
                await self.reactor.asynchronous._run_async()
            return ok

        asyncio.set_event_loop(self.loop)
        ok = self.loop.run_until_complete(go())
        return ok, list(self.processes.log)


# --------------------------------------------------------------------------------------------
# C14: the REAL Processes object behind the rig, each API process replaced by a pair of pipes.
# Additive: nothing above is changed.


class FakeProc:
    """Stands for the subprocess.Popen of one API process.
    stdout: read end of a pipe the harness writes the process's bytes to (`feed_fd`);
    stdin:  write end of a pipe the harness reads ExaBGP's answers from (`reply_fd`)."""

    def __init__(self):
        import fcntl
        import os

        r, w = os.pipe()
        self.stdout = os.fdopen(r, 'rb', 0)
        self.feed_fd = w
        r2, w2 = os.pipe()
        self.stdin = os.fdopen(w2, 'wb', 0)
        self.reply_fd = r2
        for fd in (r, r2, w2):
            fcntl.fcntl(fd, fcntl.F_SETFL, fcntl.fcntl(fd, fcntl.F_GETFL) | os.O_NONBLOCK)
        self.returncode = None
        self.terminated = False

    def poll(self):
        return None

    def terminate(self):
        self.terminated = True

    kill = terminate

    def wait(self, timeout=None):
        return 0

    def close(self):
        import os

        for f in (self.stdout, self.stdin):
            try:
                f.close()
            except OSError:
                pass
        for fd in (self.feed_fd, self.reply_fd):
            try:
                os.close(fd)
            except OSError:
                pass


def real_processes(services, max_command_size=None):
    """A real exabgp Processes in async mode whose processes are FakeProc pipes.
    -> (processes, {service: FakeProc})"""
    from exabgp.reactor.api.processes import Processes

    procs = Processes()
    procs.respawn_number = 0
    procs._async_mode = True
    procs._loop = None
    if max_command_size is not None:
        procs.MAX_COMMAND_SIZE = max_command_size  # instance attribute shadows the class constant
    fakes = {}
    for name in services:
        fp = FakeProc()
        fakes[name] = fp
        procs._process[name] = fp
        procs._ack[name] = True
        procs._ackjson[name] = False
        procs._restart[name] = False
        procs._configuration[name] = {'run': '', 'respawn': False}
    procs._update_fds()
    return procs, fakes


def feed_chunk(procs, fakes, service, chunk: bytes):
    """Deliver exactly `chunk` (<= 16384 bytes) as ONE read of the real reader callback."""
    import os

    assert len(chunk) <= 16384
    if chunk:
        os.write(fakes[service].feed_fd, chunk)
    procs._async_reader_callback(service)


def read_replies(fake):
    """Everything ExaBGP wrote to the process's stdin so far, as lines."""
    import os

    data = b''
    while True:
        try:
            part = os.read(fake.reply_fd, 65536)
        except BlockingIOError:
            break
        if not part:
            break
        data += part
    return data.decode('ascii', 'replace').split('\n')[:-1] if data else []


class PipeRig(Rig):
    """Rig whose reactor talks to a real Processes object (FakeProc pipes), driven like the main
    loop: pop ONE command (received_async), API.process, drain the scheduled callbacks, flush."""

    def __init__(self, conf_text: str = DEFAULT_CONF, api_version: int = 6, services=('svc',), max_command_size=None):
        super().__init__(conf_text, api_version, services[0])
        self.services = list(services)
        for n in self.configuration.neighbors.values():
            n.api['processes'] = list(services)
        self.processes, self.fakes = real_processes(services, max_command_size)
        self.reactor.processes = self.processes
        self.reactor.asynchronous.set_error_handler(self.processes.answer_error_sync)

    def close(self):
        for fp in self.fakes.values():
            fp.close()
        super().close()

    def feed(self, service, chunk: bytes):
        feed_chunk(self.processes, self.fakes, service, chunk)

    def step(self):
        """One main-loop iteration's worth of API work.
        -> None when no command waits, else (service, command, reply lines per service)"""

        async def go():
            got = list(self.processes.received_async())
            if not got:
                return None
            self.last_popped = len(got)
            self.last_scheduled = []
            for service, command in got:
                waiting = len(self.reactor.asynchronous._async)
                self.reactor.api.process(self.reactor, service, command)
                # True when API.process left the answer to a callback on the ASYNC queue
                self.last_scheduled.append(len(self.reactor.asynchronous._async) > waiting)
            for _ in range(50):
                if not self.reactor.asynchronous._async:
                    break
                await self.reactor.asynchronous._run_async()
            await self.processes.flush_write_queue()
            for _ in range(200):
                if not any(self.processes._write_queue.get(s) for s in self.services):
                    break
                await self.processes.flush_write_queue()
            return got[0]

        asyncio.set_event_loop(self.loop)
        got = self.loop.run_until_complete(go())
        if got is None:
            return None
        replies = {s: read_replies(fp) for s, fp in self.fakes.items()}
        return got[0], got[1], replies

    def drain(self):
        out = []
        while True:
            r = self.step()
            if r is None:
                return out
            out.append(r)
