"""A real Reactor/API/Configuration with real neighbors, RIBs and Peers (never connected), and a
recording stand-in for Processes.  Used by C14, C18, C20."""

from __future__ import annotations

import asyncio

DEFAULT_CONF = """
neighbor 127.0.0.2 { router-id 1.2.3.4; local-address 127.0.0.1; local-as 65000; peer-as 65001;
  family { ipv4 unicast; ipv6 unicast; ipv4 nlri-mpls; ipv4 mpls-vpn; ipv4 flow; l2vpn vpls; } }
neighbor 127.0.0.3 { router-id 1.2.3.4; local-address 127.0.0.1; local-as 65000; peer-as 65000;
  family { ipv4 unicast; ipv6 unicast; ipv4 nlri-mpls; ipv4 mpls-vpn; ipv4 flow; l2vpn vpls; } }
neighbor 127.0.0.4 { router-id 1.2.3.4; local-address 127.0.0.9; local-as 65010; peer-as 65001;
  family { ipv4 unicast; ipv6 unicast; ipv4 nlri-mpls; ipv4 mpls-vpn; ipv4 flow; l2vpn vpls; } }
"""


class RecProcesses:
    """Records every call; the answer_* family is what the API process would read back."""

    def __init__(self):
        self.log = []
        self._ack = True
        self._sync = False

    def get_sync(self, service):
        return self._sync

    def get_ack(self, service):
        return self._ack

    async def flush_write_queue(self):
        return None

    def __getattr__(self, name):
        if name.startswith('__'):
            raise AttributeError(name)
        is_async = name.endswith('_async') or name in ('answer_done', 'answer_error', 'answer', 'write_async')

        def rec(*a, **k):
            self.log.append((name, a, k))
            if is_async:

                async def nothing():
                    return None

                return nothing()
            return None

        return rec


class Rig:
    def __init__(self, conf_text: str = DEFAULT_CONF, api_version: int = 6, service: str = 'svc'):
        from exabgp.environment import getenv
        from exabgp.configuration.configuration import Configuration
        from exabgp.reactor.loop import Reactor
        from exabgp.reactor.peer import Peer

        getenv().api.version = api_version
        self.service = service
        self.configuration = Configuration([conf_text], text=True)
        if not self.configuration.reload():
            raise RuntimeError(f'rig configuration rejected: {self.configuration.error}')
        self.reactor = Reactor(self.configuration)
        for key, n in self.configuration.neighbors.items():
            n.api['processes'] = [service]
            self.reactor._peers[key] = Peer(n, self.reactor)
        self.processes = RecProcesses()
        self.reactor.processes = self.processes
        self.loop = asyncio.new_event_loop()

    def close(self):
        self.loop.close()

    def clear_ribs(self):
        for n in self.configuration.neighbors.values():
            n.rib.outgoing.clear()
            n.rib.outgoing.clear_cache()

    def neighbors(self):
        return self.configuration.neighbors

    def rib_snapshot(self):
        """neighbor short name -> sorted list of route descriptions in the outgoing cache"""
        snap = {}
        for key, n in self.configuration.neighbors.items():
            name = str(n.session.peer_address)
            snap[name] = sorted(r.extensive() if hasattr(r, 'extensive') else str(r) for r in n.rib.outgoing.cached_routes())
        return snap

    def routes(self):
        out = {}
        for key, n in self.configuration.neighbors.items():
            out[str(n.session.peer_address)] = list(n.rib.outgoing.cached_routes())
        return out

    def command(self, line: str):
        """Run one API command to completion (handler + its scheduled callbacks).
        -> (handler result, recorded Processes calls)"""
        self.processes.log = []

        async def go():
            ok = await self.reactor.api.process_async(self.reactor, self.service, line)
            for _ in range(50):
                if not self.reactor.asynchronous._async:
                    break
                await self.reactor.asynchronous._run_async()
            return ok

        asyncio.set_event_loop(self.loop)
        ok = self.loop.run_until_complete(go())
        return ok, list(self.processes.log)
