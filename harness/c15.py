"""C15 - every family and attribute survives an encode/decode round trip; index/hash contract.

(A) correspondence: prefix NLRIs (INET, Label, IPVPN) built through the real classes and the text
    grammar; pack_nlri / index / unpack_nlri compared with Model_Nlri evaluated in Coq; the bytes
    also compared with the RFC encoding (Spec_Nlri.rfc_encode) of the values that were asked for.
(B) property oracle on the real objects of EVERY registered family / attribute that the text
    grammar and etc/exabgp/*.conf reach: decode(encode(x)) == x, encode(decode(bytes)) == bytes,
    a == b -> same index and hash, no two routes that differ in family / path-id / prefix / rd share
    an index (near-colliding pairs are built on purpose), json()/str() of the same bytes decoded
    twice and in a fresh interpreter with another hash seed are equal.
"""

from __future__ import annotations

import collections
import glob
import json
import os
import random
import subprocess
import sys
import time

from harness import common
from harness.common import Run, zlist

PID = 'C15'

# ------------------------------------------------------------------------------- implementation side


class _AddPath:
    def __init__(self, flag):
        self.flag = flag

    def send(self, afi, safi):
        return self.flag

    def receive(self, afi, safi):
        return self.flag


class StubNegotiated:
    """pack_nlri of the prefix classes reads negotiated.addpath.send(afi, safi) only."""

    def __init__(self, flag):
        self.addpath = _AddPath(flag)


NEG = {True: StubNegotiated(True), False: StubNegotiated(False)}

KIND_OF_SAFI = {1: 'inet', 2: 'inet', 4: 'label', 128: 'ipvpn'}


def build(case):
    """case: dict(afi, safi, pid (list|None), labels (list of 20-bit values), rd (list|None), mask, ip (full bytes))
    -> the real NLRI object built by the factory methods."""
    from exabgp.bgp.message.update.nlri.inet import INET
    from exabgp.bgp.message.update.nlri.label import Label
    from exabgp.bgp.message.update.nlri.ipvpn import IPVPN
    from exabgp.bgp.message.update.nlri.cidr import CIDR
    from exabgp.bgp.message.update.nlri.qualifier import Labels, PathInfo, RouteDistinguisher
    from exabgp.protocol.family import AFI, SAFI

    afi = AFI.from_int(case['afi'])
    safi = SAFI.from_int(case['safi'])
    cidr = CIDR.create_cidr(bytes(case['ip']), case['mask'])
    if case['pid'] is None:
        pi = PathInfo.DISABLED
    elif case.get('nopath'):
        pi = PathInfo.NOPATH
    else:
        pi = PathInfo(bytes(case['pid']))
    kind = KIND_OF_SAFI[case['safi']]
    if kind == 'inet':
        return INET.from_cidr(cidr, afi, safi, pi)
    labels = Labels.make_labels(list(case['labels'])) if case['labels'] else None
    if kind == 'label':
        return Label.from_cidr(cidr, afi, safi, pi, labels=labels)
    return IPVPN.from_cidr(cidr, afi, safi, pi, labels=labels, rd=RouteDistinguisher(bytes(case['rd'])))


def fields(o):
    """model-level fields of a real prefix NLRI."""
    pid = list(bytes(o._packed[:4])) if o._has_addpath else None
    labels = []
    lab = getattr(o, 'labels', None)
    if lab is not None:
        raw = bytes(lab.pack_labels())
        labels = [int.from_bytes(raw[i : i + 3], 'big') for i in range(0, len(raw), 3)]
    rd = []
    r = getattr(o, 'rd', None)
    if r is not None:
        rd = list(bytes(r.pack_rd()))
    c = o.cidr
    return {'afi': int(o.afi), 'safi': int(o.safi), 'pid': pid, 'labels': labels, 'rd': rd, 'mask': int(c.mask),
            'pfx': list(bytes(c.pack_ip()))}


def decode(afi, safi, data, withdraw, addpath):
    """-> ('ok', fields, rest) | ('notify',) | ('exc', text)"""
    from exabgp.bgp.message import Action
    from exabgp.bgp.message.notification import Notify
    from exabgp.bgp.message.update.nlri.nlri import NLRI
    from exabgp.protocol.family import AFI, SAFI

    try:
        o, rest = NLRI.unpack_nlri(AFI.from_int(afi), SAFI.from_int(safi), bytes(data),
                                   Action.WITHDRAW if withdraw else Action.ANNOUNCE, addpath, NEG[addpath])
        return ('ok', fields(o), list(bytes(rest)), o)
    except Notify:
        return ('notify',)
    except Exception as exc:  # the model has no such outcome: reported as a disagreement
        return ('exc', f'{type(exc).__name__}: {exc}')


# ------------------------------------------------------------------------------- generation

MASKS4 = [0, 1, 7, 8, 9, 15, 16, 17, 23, 24, 25, 31, 32]
MASKS6 = MASKS4 + [33, 47, 48, 63, 64, 65, 72, 96, 97, 98, 100, 104, 105, 112, 120, 127, 128]
PIDS = [None, None, [0, 0, 0, 0], [0, 0, 0, 1], [255, 255, 255, 255], [110, 111, 45, 112], [100, 105, 115, 97], 'rand']
LABELS = [0, 1, 2, 3, 15, 16, 100, 1000, 524287, 524288, 524289, 1048575]


def rand_ip(rng, afi, mask, clean):
    n = 4 if afi == 1 else 16
    size = (mask + 7) // 8
    b = [rng.getrandbits(8) for _ in range(size)] + [0] * (n - size)
    if clean and mask % 8 and size:
        b[size - 1] &= (0xFF << (8 - mask % 8)) & 0xFF
    return b


def rand_rd(rng):
    t = rng.choice([0, 1, 2, 2, 'rand'])
    if t == 0:
        return [0, 0] + list(rng.getrandbits(16).to_bytes(2, 'big')) + list(rng.getrandbits(32).to_bytes(4, 'big'))
    if t == 1:
        return [0, 1] + [rng.getrandbits(8) for _ in range(4)] + list(rng.getrandbits(16).to_bytes(2, 'big'))
    if t == 2:
        return [0, 2] + list(rng.choice([65536, 4294967295, rng.getrandbits(32)]).to_bytes(4, 'big')) + list(rng.getrandbits(16).to_bytes(2, 'big'))
    return [rng.getrandbits(8) for _ in range(8)]


def gen_value(rng, stream='valid'):
    afi = rng.choice([1, 2])
    safi = rng.choice([1, 1, 2, 4, 4, 128, 128])
    kind = KIND_OF_SAFI[safi]
    mask = rng.choice(MASKS4 if afi == 1 else MASKS6) if rng.random() < 0.7 else rng.randint(0, 32 if afi == 1 else 128)
    pid = rng.choice(PIDS)
    if pid == 'rand':
        pid = [rng.getrandbits(8) for _ in range(4)]
    labels = []
    if kind != 'inet':
        k = rng.choice([1, 1, 2, 3])
        labels = [rng.choice(LABELS) if rng.random() < 0.6 else rng.getrandbits(20) for _ in range(k)]
        if stream == 'valid' and k > 1:
            while labels[0] in (0, 524288):  # the decoder's sentinels, exercised by the 'sentinel' stream
                labels[0] = rng.getrandbits(20)
        if stream == 'sentinel':
            labels = [rng.choice([0, 524288])] + [rng.choice(LABELS) for _ in range(rng.choice([1, 2]))]
        # the length octet holds label bits + rd bits + prefix bits: keep to what the wire format can carry
        while 24 * len(labels) + (64 if kind == 'ipvpn' else 0) + mask > 255:
            labels = labels[:-1]
    return {
        'afi': afi, 'safi': safi, 'pid': pid, 'labels': labels, 'rd': rand_rd(rng) if kind == 'ipvpn' else None,
        'mask': mask, 'ip': rand_ip(rng, afi, mask, rng.random() < 0.5), 'stream': stream,
        'nopath': pid == [0, 0, 0, 0] and rng.random() < 0.5,
    }


def text_of(v):
    """the same value in the text grammar (static route syntax), None when it has no text form"""
    import socket

    ip = socket.inet_ntop(socket.AF_INET if v['afi'] == 1 else socket.AF_INET6, bytes(v['ip']))
    if v['safi'] == 2:
        return None
    nh = '1.2.3.4' if v['afi'] == 1 else '2001:db8::1'
    t = f'route {ip}/{v["mask"]} next-hop {nh}'
    if v['labels']:
        t += ' label [ ' + ' '.join(str(x) for x in v['labels']) + ' ]'
    if v['rd'] is not None:
        rd = bytes(v['rd'])
        ty = int.from_bytes(rd[:2], 'big')
        if ty == 0:
            t += f' rd {int.from_bytes(rd[2:4], "big")}:{int.from_bytes(rd[4:], "big")}'
        elif ty == 1:
            t += f' rd {rd[2]}.{rd[3]}.{rd[4]}.{rd[5]}:{int.from_bytes(rd[6:], "big")}'
        elif ty == 2 and int.from_bytes(rd[2:6], 'big') >= 65536:
            t += f' rd {int.from_bytes(rd[2:6], "big")}:{int.from_bytes(rd[6:], "big")}'
        else:
            return None
    if v['pid'] is not None:
        t += ' path-information ' + '.'.join(str(b) for b in v['pid'])
    return t


# the witnesses of C15_index_injective_refuted / C15_eq_hash_refuted (Proofs_Nlri.d15_*, d14_*), replayed on every run
WITNESS_PAIRS = [
    ('Label', 'no-pi',
     {'afi': 2, 'safi': 4, 'pid': [110, 111, 45, 112], 'labels': [100], 'rd': None, 'mask': 105, 'ip': [100, 1, 2, 3, 4, 5, 6, 7, 8, 9, 10, 11, 12, 0, 0, 0]},
     {'afi': 2, 'safi': 4, 'pid': [0, 0, 0, 0], 'labels': [100], 'rd': None, 'mask': 100, 'ip': [1, 2, 3, 4, 5, 6, 7, 8, 9, 10, 11, 12, 0, 0, 0, 0]}),
    ('INET', 'disabled',
     {'afi': 2, 'safi': 1, 'pid': [100, 105, 115, 97], 'labels': [], 'rd': None, 'mask': 98, 'ip': [108, 101, 100, 72, 1, 2, 3, 4, 5, 6, 7, 8, 0, 0, 0, 0]},
     {'afi': 2, 'safi': 1, 'pid': None, 'labels': [], 'rd': None, 'mask': 72, 'ip': [1, 2, 3, 4, 5, 6, 7, 8, 0, 0, 0, 0, 0, 0, 0, 0]}),
    ('IPVPN', 'no-pi',
     {'afi': 2, 'safi': 128, 'pid': [110, 111, 45, 112], 'labels': [100], 'rd': [104, 0, 0, 0, 0, 0, 0, 1], 'mask': 41, 'ip': [10, 0, 0, 0, 1, 0] + [0] * 10},
     {'afi': 2, 'safi': 128, 'pid': [0, 0, 0, 0], 'labels': [100], 'rd': [0, 0, 0, 0, 0, 0, 1, 10], 'mask': 40, 'ip': [0, 0, 0, 1, 0] + [0] * 11}),
]
WITNESS_D14 = ({'afi': 1, 'safi': 4, 'pid': None, 'labels': [100], 'rd': None, 'mask': 24, 'ip': [10, 0, 0, 0]},
               {'afi': 1, 'safi': 4, 'pid': None, 'labels': [200], 'rd': None, 'mask': 24, 'ip': [10, 0, 0, 0]})


def collision_pairs(rng):
    """pairs of routes that differ in path identifier AND prefix (and rd) whose pinned-tree indexes coincide:
    the variable-length path-id tag (4 bytes / b'no-pi' / b'disabled') runs into the mask and prefix."""
    pairs = []
    for _ in range(3):
        p2 = [rng.getrandbits(8) for _ in range(16)]
        # Label / "no-pi": A = path-id "no-p", /105, prefix = [m2] + P2 ; B = NOPATH, /m2, prefix P2 (13 bytes)
        m2 = rng.randint(97, 104)
        a = {'afi': 2, 'safi': 4, 'pid': [110, 111, 45, 112], 'labels': [100], 'rd': None, 'mask': 105, 'ip': ([m2] + p2[:13] + [0, 0])[:16]}
        b = {'afi': 2, 'safi': 4, 'pid': [0, 0, 0, 0], 'labels': [100], 'rd': None, 'mask': m2, 'ip': p2[:13] + [0, 0, 0]}
        a['ip'][13] &= 0x80
        b['ip'][12] = a['ip'][13]
        pairs.append(('Label', 'no-pi', a, b))
        # INET and Label / "disabled": A = path-id "disa", /98, prefix = "led" + [m2] + P2 ; B = no path-id, /m2, P2 (9 bytes)
        m2 = rng.randint(65, 72)
        for safi, cls in ((1, 'INET'), (4, 'Label')):
            a = {'afi': 2, 'safi': safi, 'pid': [100, 105, 115, 97], 'labels': [100] if safi == 4 else [], 'rd': None, 'mask': 98,
                 'ip': [108, 101, 100, m2] + p2[:8] + [p2[8] & 0xC0, 0, 0, 0]}
            b = {'afi': 2, 'safi': safi, 'pid': None, 'labels': [100] if safi == 4 else [], 'rd': None, 'mask': m2,
                 'ip': p2[:8] + [p2[8] & 0xC0] + [0] * 7}
            pairs.append((cls, 'disabled', a, b))
        # IPVPN / "no-pi": index mask byte 105 = 64 + 41; A.rd = [64+m2] + B.rd[:7]; A.prefix(6) = B.rd[7:] + B.prefix(5)
        m2 = rng.randint(33, 40)
        brd = [0, 0] + [rng.getrandbits(8) for _ in range(6)]
        bp = [rng.getrandbits(8) for _ in range(4)] + [rng.getrandbits(8) & 0x80]
        a = {'afi': 2, 'safi': 128, 'pid': [110, 111, 45, 112], 'labels': [100], 'rd': [64 + m2] + brd[:7], 'mask': 41,
             'ip': [brd[7]] + bp + [0] * 10}
        b = {'afi': 2, 'safi': 128, 'pid': [0, 0, 0, 0], 'labels': [100], 'rd': brd, 'mask': m2, 'ip': bp + [0] * 11}
        pairs.append(('IPVPN', 'no-pi', a, b))
        # IPVPN / "disabled": mask byte 98 = 64 + 34; A.rd = "led" + [64+m2] + B.rd[:4]; A.prefix(5) = B.rd[4:] + B.prefix(1)
        m2 = rng.randint(1, 8)
        brd = [0, 0] + [rng.getrandbits(8) for _ in range(6)]
        b0 = rng.getrandbits(8) & 0xC0
        a = {'afi': 2, 'safi': 128, 'pid': [100, 105, 115, 97], 'labels': [100], 'rd': [108, 101, 100, 64 + m2] + brd[:4], 'mask': 34,
             'ip': brd[4:] + [b0] + [0] * 11}
        b = {'afi': 2, 'safi': 128, 'pid': None, 'labels': [100], 'rd': brd, 'mask': m2, 'ip': [b0 & (0xFF << (8 - m2)) & 0xFF] + [0] * 15}
        a['ip'][4] = b['ip'][0]
        pairs.append(('IPVPN', 'disabled', a, b))
    for _, _, a, b in pairs:
        a.setdefault('stream', 'collision')
        b.setdefault('stream', 'collision')
    return pairs


def mutate(rng, afi, safi, good):
    """malformed / hostile byte strings for the decoders, derived from a good encoding"""
    kind = rng.choice(['trunc', 'mask', 'random', 'nobos', 'sentinel', 'bigmask', 'extend'])
    b = list(good)
    if kind == 'trunc' and len(b) > 1:
        b = b[: rng.randint(0, len(b) - 1)]
    elif kind == 'mask' and b:
        i = 0
        b[i] = rng.choice([0, 1, 23, 24, 25, 32, 33, 48, 56, 64, 87, 88, 89, 96, 112, 120, 128, 129, 152, 200, 255, rng.getrandbits(8)])
    elif kind == 'random':
        b = [rng.getrandbits(8) for _ in range(rng.randint(0, 24))]
    elif kind == 'nobos':
        b = [b[0] if b else 48] + [x & 0xFE for x in b[1:]]
    elif kind == 'sentinel':
        lab = rng.choice([[0x80, 0, 0], [0, 0, 0], [0x80, 0, 1], [0, 0, 1], [0x80, 0, 0, 0, 0, 0], [0, 0, 0, 0x80, 0, 0]])
        tail = [rng.getrandbits(8) for _ in range(rng.choice([0, 3, 4, 8, 11, 12, 20]))]
        b = [rng.choice([24, 48, 56, 72, 88, 96, 112, 120, len(lab) * 8 + 8 * len(tail)]) & 0xFF] + lab + tail
    elif kind == 'bigmask':
        b = [rng.choice([33, 129, 130, 255, 24 + 33, 88 + 33, 88 + 129])] + [rng.getrandbits(8) for _ in range(rng.randint(0, 40))]
    else:
        b = b + [rng.getrandbits(8) for _ in range(rng.randint(1, 6))]
    return b, kind


# ------------------------------------------------------------------------------- Coq side

HEADER_MODEL = """From Coq Require Import ZArith Bool List.
From ExaV Require Import gen.Gen_NlriRegistry model.Model_Nlri.
Import ListNotations. Open Scope Z_scope.
Definition opt_eqb (a b : option (list Z)) : bool :=
  match a, b with None, None => true | Some x, Some y => list_eqb x y | _, _ => false end.
Definition kind_of (n : nlri) : nlri_kind := match nlri_class (n_afi n) (n_safi n) with Some k => k | None => KInet end.
Definition full_eqb (a b : nlri) : bool :=
  (n_afi a =? n_afi b) && (n_safi a =? n_safi b) && opt_eqb (n_pid a) (n_pid b) && list_eqb (n_labels a) (n_labels b)
  && list_eqb (n_rd a) (n_rd b) && (n_mask a =? n_mask b) && list_eqb (n_pfx a) (n_pfx b).
Definition enc_ok (c : nlri * list Z * list Z * list Z * list Z) : bool :=
  match c with (n, pt, pf, idx, hk) =>
    list_eqb (pack_nlri true n) pt && list_eqb (pack_nlri false n) pf end.
Definition idx_ok (c : nlri * list Z * list Z * list Z * list Z) : bool :=
  match c with (n, pt, pf, idx, hk) => list_eqb (index_of (kind_of n) n) idx end.
Definition idx_pinned_ok (c : nlri * list Z * list Z * list Z * list Z) : bool :=
  match c with (n, pt, pf, idx, hk) => list_eqb (index_of_pinned (kind_of n) n) idx end.
Definition dec_ok (c : bool * bool * Z * Z * list Z * option (nlri * list Z)) : bool :=
  match c with (w, ap, afi, safi, data, expect) =>
    match unpack_nlri w ap afi safi data, expect with
    | None, None => true
    | Some (n, r), Some (n', r') => full_eqb n n' && list_eqb r r'
    | _, _ => false
    end end.
Fixpoint bad {A} (f : A -> bool) (l : list A) (i : nat) : list nat :=
  match l with [] => [] | c :: l' => if f c then bad f l' (S i) else i :: bad f l' (S i) end.
Definition count_some {A} (l : list (bool * bool * Z * Z * list Z * option A)) : nat :=
  length (filter (fun c => match c with (_, _, _, _, _, Some _) => true | _ => false end) l).
"""

HEADER_SPEC = """From Coq Require Import ZArith Bool List.
From ExaV Require Import spec.Spec_Nlri.
Import ListNotations. Open Scope Z_scope.
Fixpoint leqb (a b : list Z) : bool :=
  match a, b with [], [] => true | x :: a', y :: b' => (x =? y) && leqb a' b' | _, _ => false end.
Definition okc (c : rfc_route * list Z) : bool := match c with (r, bytes) => leqb (rfc_encode r) bytes end.
Fixpoint bad (l : list (rfc_route * list Z)) (i : nat) : list nat :=
  match l with [] => [] | c :: l' => if okc c then bad l' (S i) else i :: bad l' (S i) end.
"""


def coq_opt(x):
    return 'None' if x is None else f'(Some {zlist(x)})'


def coq_nlri(f):
    return (f'(mkN {f["afi"]} {f["safi"]} {coq_opt(f["pid"])} {zlist(f["labels"])} {zlist(f["rd"])} '
            f'{f["mask"]} {zlist(f["pfx"])})')


def eval_model(enc_cases, dec_cases, tag):
    """-> (ran, enc_bad, idx_bad, idx_pinned_bad, dec_bad, accepted, logs)"""
    enc_shards = common.chunked(list(range(len(enc_cases))), 120)
    dec_shards = common.chunked(list(range(len(dec_cases))), 200)

    def enc_defs(idx):
        items = []
        for i in idx:
            c = enc_cases[i]
            items.append(f'({coq_nlri(c["fields"])}, {zlist(c["pack_t"])}, {zlist(c["pack_f"])}, {zlist(c["index"])}, [])')
        return ('Definition cases : list (nlri * list Z * list Z * list Z * list Z) := [' + ';\n'.join(items) + '].\n'
                'Eval vm_compute in (bad enc_ok cases 0).\nEval vm_compute in (bad idx_ok cases 0).\n'
                'Eval vm_compute in (bad idx_pinned_ok cases 0).\n')

    def dec_defs(idx):
        items = []
        for i in idx:
            c = dec_cases[i]
            r = c['result']
            exp = 'None' if r[0] != 'ok' else f'(Some ({coq_nlri(r[1])}, {zlist(r[2])}))'
            items.append(f'({"true" if c["withdraw"] else "false"}, {"true" if c["addpath"] else "false"}, {c["afi"]}, {c["safi"]}, '
                         f'{zlist(c["data"])}, {exp})')
        return ('Definition cases : list (bool * bool * Z * Z * list Z * option (nlri * list Z)) := [' + ';\n'.join(items) + '].\n'
                'Eval vm_compute in (bad dec_ok cases 0).\nEval vm_compute in (count_some cases).\n')

    eres = common.eval_cases(HEADER_MODEL, enc_defs, enc_shards, tag + '_e')
    dres = common.eval_cases(HEADER_MODEL, dec_defs, dec_shards, tag + '_d')
    ran = all(rc == 0 for rc, _, _ in eres + dres)
    enc_bad, idx_bad, pin_bad, dec_bad = [], [], [], []
    for shard, (rc, out, parsed) in zip(enc_shards, eres):
        if rc == 0 and len(parsed) >= 3:
            enc_bad += [shard[j] for j in common.nat_list_of(parsed[0])]
            idx_bad += [shard[j] for j in common.nat_list_of(parsed[1])]
            pin_bad += [shard[j] for j in common.nat_list_of(parsed[2])]
    for shard, (rc, out, parsed) in zip(dec_shards, dres):
        if rc == 0 and parsed:
            dec_bad += [shard[j] for j in common.nat_list_of(parsed[0])]
    logs = [out for rc, out, _ in eres + dres if rc != 0]
    return ran, enc_bad, idx_bad, pin_bad, dec_bad, logs


def eval_spec(spec_cases, tag):
    shards = common.chunked(list(range(len(spec_cases))), 400)

    def defs(idx):
        items = []
        for i in idx:
            v, data = spec_cases[i]
            size = (v['mask'] + 7) // 8
            pid = 'None' if v['pid'] is None else f'(Some {int.from_bytes(bytes(v["pid"]), "big")})'
            rd = 'None' if v['rd'] is None else f'(Some {int.from_bytes(bytes(v["rd"]), "big")})'
            addr = int.from_bytes(bytes(v['ip'][:size]), 'big') if size else 0
            items.append(f'(mkR {pid} {zlist(v["labels"])} {rd} {v["mask"]} {addr}, {zlist(data)})')
        return 'Definition cases : list (rfc_route * list Z) := [' + ';\n'.join(items) + '].\nEval vm_compute in (bad cases 0).\n'

    res = common.eval_cases(HEADER_SPEC, defs, shards, tag + '_s')
    ran = all(rc == 0 for rc, _, _ in res)
    bad = []
    for shard, (rc, out, parsed) in zip(shards, res):
        if rc == 0 and parsed:
            bad += [shard[j] for j in common.nat_list_of(parsed[0])]
    return ran, bad, [out for rc, out, _ in res if rc != 0]


# ------------------------------------------------------------------------------- (B) every registered type


def registered():
    from exabgp.bgp.message.update.nlri.nlri import NLRI
    from exabgp.bgp.message.update.attribute.attribute import Attribute
    import exabgp.bgp.message.update.attribute  # noqa: F401  (registers)
    import exabgp.bgp.message.update.nlri  # noqa: F401

    fams = sorted(NLRI.registered_nlri)
    attrs = sorted({int(aid) for (aid, _flag) in Attribute.registered_attributes})
    return fams, attrs


def load_conf_routes(paths):
    """-> list of (conf path, neighbor name, neighbor, [routes]) using the project's own check path."""
    import copy
    from exabgp.configuration.configuration import Configuration
    from exabgp.environment import getenv

    out = []
    skipped = {}
    for path in paths:
        try:
            conf = Configuration([path])
            ok = conf.reload()
        except BaseException as exc:  # a conf that does not parse here is not our subject
            skipped[os.path.basename(path)] = f'{type(exc).__name__}'
            continue
        if not ok:
            skipped[os.path.basename(path)] = 'reload() false'
            continue
        for name in sorted(conf.neighbors):
            try:
                neighbor = copy.deepcopy(conf.neighbors[name])
                neighbor.session.local_as = neighbor.session.peer_as
                if not neighbor.rib.enabled:
                    continue
                for _ in neighbor.rib.outgoing.updates(False):
                    pass
                routes = list(neighbor.rib.outgoing.cached_routes())
            except BaseException as exc:
                skipped[os.path.basename(path) + ':' + name] = f'{type(exc).__name__}: {exc}'[:120]
                continue
            if routes:
                out.append((path, name, neighbor, routes))
    return out, skipped


def render(nlri, attributes):
    """text and JSON renderings of a decoded route"""
    r = {'str': str(nlri), 'json': nlri.json(), 'attr_str': str(attributes)}
    try:
        r['attr_json'] = attributes.json()
    except Exception as exc:
        r['attr_json'] = f'EXC {type(exc).__name__}'
    return r


def update_roundtrip(neighbor, route, negs):
    """encode one route as an UPDATE, decode it, re-encode.  -> dict of observations"""
    from exabgp.bgp.message.update.collection import UpdateCollection, RoutedNLRI
    from exabgp.protocol.ip import IP

    neg_in, neg_out = negs
    obs = {}
    packed = list(UpdateCollection([RoutedNLRI(route.nlri, route.nexthop)], [], route.attributes).messages(neg_out))
    if not packed:
        return {'error': 'no message generated'}
    pack1 = packed[0]
    body = pack1[19:] if pack1.startswith(b'\xff' * 16) else pack1
    obs['pack1'] = pack1
    update = UpdateCollection.unpack_message(body, neg_in)
    if update.announces:
        routed = update.announces[0]
        nlri, nexthop = routed.nlri, routed.nexthop
    elif update.nlris:
        nlri, nexthop = update.nlris[0], IP.NoNextHop
        routed = RoutedNLRI(nlri, nexthop)
    else:
        return {'error': 'decoded update holds no nlri', 'pack1': pack1}
    obs['nlri2'] = nlri
    obs['attrs2'] = update.attributes
    obs['nexthop2'] = nexthop
    obs['discarded'] = any(type(a).__name__ == 'Discard' for a in update.attributes.values())
    if obs['discarded']:
        obs['pack2'] = pack1  # the session is not configured to accept that attribute (AIGP): nothing to re-encode
    else:
        pack2 = list(UpdateCollection([routed], [], update.attributes).messages(neg_out))
        obs['pack2'] = pack2[0] if pack2 else b''
    obs['session_consistent'] = (not hasattr(route.nlri, '_has_addpath')) or (
        bool(route.nlri._has_addpath) == bool(neg_out.addpath.send(route.nlri.afi, route.nlri.safi)))
    # the same bytes decoded a second time
    update_b = UpdateCollection.unpack_message(body, neg_in)
    nlri_b = update_b.announces[0].nlri if update_b.announces else update_b.nlris[0]
    obs['render_a'] = render(nlri, update.attributes)
    obs['render_b'] = render(nlri_b, update_b.attributes)
    return obs


def attr_same(a1, a2, neg_out):
    """decode(encode(a)) == a; an `attribute [ code flag bytes ]` written raw is the same attribute as its
    decoded class when the two put the same bytes on the wire"""
    try:
        if a1 == a2:
            return True
    except Exception:
        pass
    if type(a2).__name__ == 'Discard':
        return True  # session not configured to accept it (AIGP)
    if 'Generic' in type(a1).__name__ or 'Generic' in type(a2).__name__:
        try:
            return bytes(a1.pack_attribute(neg_out)) == bytes(a2.pack_attribute(neg_out))
        except Exception:
            return False
    return False


def child_main(spec_path):
    """fresh interpreter: decode the listed UPDATE bodies again and print their renderings."""
    from exabgp.configuration.check import _negotiated
    from exabgp.bgp.message.update.collection import UpdateCollection

    spec = json.load(open(spec_path))
    loaded = {}
    out = []
    for item in spec:
        key = item['conf']
        if key not in loaded:
            entries, _ = load_conf_routes([key])
            loaded[key] = {name: neighbor for _, name, neighbor, _ in entries}
        neighbor = loaded[key].get(item['neighbor'])
        if neighbor is None:
            out.append(None)
            continue
        neg_in, _ = _negotiated(neighbor)
        body = bytes.fromhex(item['hex'])
        try:
            update = UpdateCollection.unpack_message(body, neg_in)
            nlri = update.announces[0].nlri if update.announces else update.nlris[0]
            out.append(render(nlri, update.attributes))
        except Exception as exc:
            out.append({'exc': f'{type(exc).__name__}: {exc}'})
    json.dump(out, sys.stdout)


def text_routes(rng, n):
    """routes through the text grammar for the IP families with the attribute vocabulary of the grammar"""
    attrs = [
        'origin igp', 'origin egp', 'origin incomplete', 'med 0', 'med 4294967295', 'local-preference 0', 'local-preference 4294967295',
        'as-path [ 65000 65001 ]', 'as-path [ 1 2 3 4 5 ]', 'community [ 65000:1 ]', 'community [ 0:0 65535:65535 no-export ]',
        'large-community [ 1:2:3 ]', 'large-community [ 4294967295:4294967295:4294967295 ]',
        'extended-community [ target:65000:1 ]', 'extended-community [ origin:1.2.3.4:5 target:65000:1 ]',
        'originator-id 1.2.3.4', 'cluster-list [ 1.1.1.1 2.2.2.2 ]', 'atomic-aggregate', 'aggregator ( 65000:1.2.3.4 )',
        'aigp 100',
    ]
    out = []
    for _ in range(n):
        v = gen_value(rng)
        t = text_of(v)
        if t is None:
            continue
        k = rng.choice([0, 1, 2, 4])
        chosen = rng.sample(attrs, k)
        kinds = set()
        keep = []
        for a in chosen:
            w = a.split()[0]
            if w not in kinds:
                kinds.add(w)
                keep.append(a)
        out.append((t + ''.join(' ' + a for a in keep), v))
    return out


# ------------------------------------------------------------------------------- (C) boundary lengths

FLOW_PORT_RANGES = (range(104, 126), range(2028, 2048))  # component blocks around 240 and around 4095 octets


def build_flow(afi_n, safi_n, ports, wide):
    """destination prefix + `ports` destination-port tests (`wide` of them two octets wide) [+ rd]"""
    from exabgp.bgp.message.update.nlri.flow import Flow, Flow4Destination, Flow6Destination, FlowDestinationPort, NumericOperator
    from exabgp.bgp.message.update.nlri.qualifier import RouteDistinguisher
    from exabgp.protocol.family import AFI, SAFI
    from exabgp.protocol.ip import IPv4, IPv6
    from exabgp.protocol.resource import NumericValue

    afi, safi = AFI.from_int(afi_n), SAFI.from_int(safi_n)
    flow = Flow.make_flow(afi, safi)
    if afi_n == 1:
        flow.add(Flow4Destination.make_prefix4(IPv4.pton('10.0.0.0'), 24))
    else:
        flow.add(Flow6Destination.make_prefix6(IPv6.pton('2001:db8::'), 32, 0))
    values = []
    for i in range(ports):
        v = 1000 + i if i < wide else 1 + (i % 200)
        values.append(v)
        flow.add(FlowDestinationPort(NumericOperator.EQ, NumericValue(v)))
    if safi_n == 134:
        flow.rd = RouteDistinguisher.make_from_elements('65000', 1)
    return flow, values


def flow_boundary(fail, quick):
    """FlowSpec NLRIs whose component block takes EVERY length in a window around 240 (one/two octet length
    prefix, RFC 8955 4.1) and up to the 4095 maximum, for ipv4/ipv6 x flow/flow-vpn, built by the Flow factory."""
    import re
    from exabgp.bgp.message.action import Action
    from exabgp.bgp.message.notification import Notify
    from exabgp.bgp.message.open.capability.negotiated import Negotiated
    from exabgp.bgp.message.update.nlri.nlri import NLRI
    from exabgp.protocol.family import AFI, SAFI

    neg = Negotiated.UNSET
    n = 0
    wire_lengths = collections.defaultdict(set)
    for afi_n in (1, 2):
        for safi_n in (133, 134):
            fam = '{}/{}'.format(AFI.from_int(afi_n), SAFI.from_int(safi_n))
            for rng_ports in FLOW_PORT_RANGES:
                for ports in rng_ports:
                    for wide in (0, 1):
                        case = {'family': fam, 'ports': ports, 'two_octet_ports': wide,
                                'rule': 'destination prefix + %d destination-port tests%s' % (ports, ' + rd 65000:1' if safi_n == 134 else '')}
                        try:
                            flow, values = build_flow(afi_n, safi_n, ports, wide)
                            wire = bytes(flow.pack_nlri(neg))
                        except Notify:
                            continue  # larger than the encoding allows: refused, nothing on the wire
                        except Exception as exc:
                            fail(f'boundary:flow-build-exception:{fam}', 'building / encoding a FlowSpec rule raised', dict(case, error=f'{type(exc).__name__}: {exc}'[:200]))
                            continue
                        n += 1
                        wire_lengths[fam].add(len(wire))
                        case['wire_octets'] = len(wire)
                        case['wire_head'] = wire[:4].hex()
                        sig_len = 'around-240' if len(wire) < 300 else 'around-4095'
                        try:
                            dec, left = NLRI.unpack_nlri(AFI.from_int(afi_n), SAFI.from_int(safi_n), wire, Action.ANNOUNCE, None, neg)
                        except Exception as exc:
                            fail(f'boundary:flow-roundtrip:{fam}:{sig_len}', 'ExaBGP refuses the FlowSpec NLRI it encoded', dict(case, error=f'{type(exc).__name__}: {exc}'[:200]))
                            continue
                        if dec is NLRI.INVALID or bytes(left):
                            fail(f'boundary:flow-roundtrip:{fam}:{sig_len}', 'the FlowSpec NLRI ExaBGP encoded does not decode (invalid / bytes left over)',
                                 dict(case, left_over=len(bytes(left))))
                            continue
                        if not (dec == flow) or dec.index() != flow.index() or hash(dec) != hash(flow):
                            fail(f'boundary:flow-roundtrip:{fam}:{sig_len}', 'decode(encode(flow)) != flow (==, index or hash)', dict(case, decoded=str(dec)[:200]))
                            continue
                        got = [int(x) for x in re.findall(r'=(\d+)', str(dec).split('destination-port', 1)[-1])]
                        if got != values:
                            fail(f'boundary:flow-values:{fam}:{sig_len}', 'the decoded rule does not hold the port tests that were asked for',
                                 dict(case, decoded_ports=len(got), asked=len(values)))
                        if bytes(dec.pack_nlri(neg)) != wire:
                            fail(f'boundary:flow-reencode:{fam}:{sig_len}', 'encode(decode(bytes)) != bytes', case)
                        if str(dec) != str(flow) or dec.json() != flow.json():
                            fail(f'boundary:flow-rendering:{fam}', 'str()/json() differ between the rule and its decoded form', case)
    return n, {f: [min(v), max(v), len(v)] for f, v in wire_lengths.items()}


ASPATH_COUNTS = (1, 254, 255, 256, 257, 510, 511, 512)


def aspath_factory_boundary(fail, quick):
    """AS_PATH / AS4_PATH segments of 254..512 ASNs of every segment type, built by make_aspath, on 4-byte and
    2-byte sessions (2-byte sessions with and without ASNs above 65535, which adds AS4_PATH)."""
    from exabgp.bgp.message.open.asn import ASN
    from exabgp.bgp.message.open.capability.negotiated import Negotiated
    from exabgp.bgp.message.update.attribute.attribute import Attribute
    from exabgp.bgp.message.update.attribute.aspath import ASPath, SEQUENCE, SET, CONFED_SEQUENCE, CONFED_SET
    from exabgp.bgp.message.update.attribute.collection import AttributeCollection

    n = 0
    for asn4 in (True, False):
        neg = Negotiated._create_unset()
        neg.asn4 = asn4
        neg.local_as = ASN(65000)
        neg.peer_as = ASN(65001)
        for kind in (SEQUENCE, SET, CONFED_SEQUENCE, CONFED_SET):
            for count in ASPATH_COUNTS:
                for base in ((1000, 70000) if asn4 else (1000,)):
                    asns = [ASN(base + i) for i in range(count)]
                    expected = [(kind.ID, base + i) for i in range(count)]
                    case = {'segment': kind.__name__, 'asns': count, 'first_asn': base, 'asn4_session': asn4}
                    sig = f'boundary:as-path:{kind.__name__}:{"asn4" if asn4 else "asn2"}'
                    try:
                        original = ASPath.make_aspath([kind(asns)], asn4=asn4)
                        wire = bytes(original.pack_attribute(neg))
                        decoded = AttributeCollection().parse(wire, neg)[Attribute.CODE.AS_PATH]
                    except Exception as exc:
                        fail(sig, 'building, encoding or decoding an AS_PATH raised', dict(case, error=f'{type(exc).__name__}: {exc}'[:200]))
                        continue
                    n += 1
                    got = [(seg.ID, int(a)) for seg in decoded.aspath for a in seg]
                    if got != expected:
                        missing = [a for (_, a) in expected if (kind.ID, a) not in got]
                        fail(sig, 'the decoded AS_PATH is not the list of AS numbers that was given to the factory',
                             dict(case, decoded_asns=len(got), missing=missing[:5], segment_sizes=[len(s) for s in decoded.aspath]))
                        continue
                    if any(len(seg) > 255 for seg in decoded.aspath):
                        fail(sig, 'segment longer than 255', case)
                    if not (decoded == original):
                        fail(sig + ':not-equal', 'decode(encode(as-path)) != as-path', case)
                    if bytes(decoded.pack_attribute(neg)) != wire:
                        fail(sig + ':reencode', 'encode(decode(bytes)) != bytes', case)
    return n


def text_attribute_boundary(fail, quick, covered_attrs):
    """attribute values at the one-octet / extended length switch (255/256 octets) and AS paths around the
    255-ASN segment limit, through the text grammar and the UPDATE encoder/decoder, on a 4-byte and a 2-byte session"""
    import copy as _copy
    import re
    from exabgp.configuration.check import _negotiated
    from exabgp.configuration.setup import create_minimal_configuration
    from exabgp.util.enumeration import TriState

    specs = []
    for k in (62, 63, 64, 65):
        specs.append(('community', 8, k, [f'65000:{i}' for i in range(k)], r'\d+:\d+'))
        specs.append(('cluster-list', 10, k, [f'10.0.{i // 256}.{i % 256}' for i in range(k)], r'\d+\.\d+\.\d+\.\d+'))
    for k in (20, 21, 22):
        specs.append(('large-community', 32, k, [f'65000:1:{i}' for i in range(k)], r'\d+:\d+:\d+'))
    for k in (30, 31, 32, 33):
        specs.append(('extended-community', 16, k, [f'target:65000:{i}' for i in range(k)], r'target:\d+:\d+'))
    for k in ASPATH_COUNTS:
        specs.append(('as-path', 2, k, [str(1000 + i) for i in range(k)], r'\d+'))
        specs.append(('as-path', 2, k, [str(70000 + i) for i in range(k)], r'\d+'))
    n = 0
    for asn4 in (True, False):
        tconf = create_minimal_configuration(families='ipv4 unicast')
        nb = _copy.deepcopy(next(iter(tconf.neighbors.values())))
        nb.session.local_as = nb.session.peer_as
        if not asn4:
            nb.capability.asn4 = TriState.FALSE
        negs = _negotiated(nb)
        if bool(negs[1].asn4) != asn4:
            raise RuntimeError(f'could not build a session with asn4={asn4}')
        for word, code, k, tokens, pattern in specs:
            text = f'route 10.0.0.0/24 next-hop 1.2.3.4 {word} [ ' + ' '.join(tokens) + ' ]'
            case = {'attribute': word, 'elements': k, 'first': tokens[0], 'asn4_session': asn4, 'text': text[:120] + ' ...'}
            sig = f'boundary:{word}:{"asn4" if asn4 else "asn2"}'
            try:
                route = tconf.parse_route_text(text)[0]
                obs = update_roundtrip(nb, route, negs)
            except Exception as exc:
                fail(sig + ':exception', 'parsing, encoding or decoding a boundary-length attribute raised', dict(case, error=f'{type(exc).__name__}: {exc}'[:300]))
                continue
            if 'error' in obs or code not in obs['attrs2']:
                fail(sig, 'the attribute is missing from the decoded UPDATE', dict(case, error=obs.get('error', 'attribute absent')))
                continue
            n += 1
            covered_attrs[code] += 1
            if code == 2 and not asn4 and int(tokens[0]) > 65535:
                covered_attrs[17] += 1  # the 2-byte session carried the path as AS_PATH (AS_TRANS) + AS4_PATH
            a1, a2 = route.attributes[code], obs['attrs2'][code]
            case['attribute_octets'] = len(bytes(a1.pack_attribute(negs[1])))
            got = re.findall(pattern, str(a2))
            if got != tokens:
                fail(sig, 'the decoded attribute does not hold the values that were written',
                     dict(case, decoded_elements=len(got), missing=[t for t in tokens if t not in got][:5]))
                continue
            if not attr_same(a1, a2, negs[1]):
                fail(sig + ':not-equal', 'decode(encode(attribute)) != attribute', dict(case, decoded=str(a2)[:120]))
            if obs['pack2'] != obs['pack1']:
                fail(sig + ':reencode', 'encode(decode(UPDATE bytes)) != bytes', case)
            if obs['render_a'] != obs['render_b']:
                fail(sig + ':rendering', 'str()/json() of the same bytes decoded twice differ', case)
    return n


# ------------------------------------------------------------------------------- (D) VPLS / RTC / EVPN framing / attribute values

HEADER_X = """From Coq Require Import ZArith Bool List.
From ExaV Require Import gen.Gen_NlriRegistry model.Model_Nlri model.Model_Attr model.Model_NlriX.
Import ListNotations. Open Scope Z_scope.
Definition ob_eqb (a b : option (list Z * list Z)) : bool :=
  match a, b with None, None => true | Some (p, r), Some (p', r') => list_eqb p p' && list_eqb r r' | _, _ => false end.
Definition vpls_eqb (a b : vpls) : bool :=
  list_eqb (v_rd a) (v_rd b) && (v_ve a =? v_ve b) && (v_off a =? v_off b) && (v_size a =? v_size b) && (v_base a =? v_base b).
Definition vpls_enc_ok (c : vpls * list Z * list Z) : bool :=
  match c with (v, bytes, idx) => list_eqb (make_vpls v) bytes && vpls_eqb (vpls_fields bytes) v && list_eqb (vpls_index bytes) idx end.
Definition vpls_dec_ok (c : list Z * option (list Z * list Z)) : bool := match c with (d, e) => ob_eqb (unpack_vpls d) e end.
Definition oz_eqb (a b : option (list Z)) : bool :=
  match a, b with None, None => true | Some x, Some y => list_eqb x y | _, _ => false end.
Definition rtc_enc_ok (c : Z * option (list Z) * list Z * list Z) : bool :=
  match c with (o, rt, bytes, idx) =>
    list_eqb (pack_rtc (make_rtc o rt)) bytes && (rtc_origin (make_rtc o rt) =? (match rt with Some _ => o | None => 0 end))
    && oz_eqb (rtc_rt (make_rtc o rt)) (match rt with Some (r0 :: r) => Some (reset_flags r0 :: r) | _ => None end)
    && list_eqb (rtc_index (make_rtc o rt)) idx end.
Definition rtc_dec_ok (c : list Z * option (list Z * list Z) * list Z) : bool :=
  match c with (d, e, again) =>
    ob_eqb (unpack_rtc d) e && match e with Some (p, _) => list_eqb (pack_rtc p) again | None => true end end.
(* strict: unregistered route type, the framing is the whole decoder; otherwise the type-specific checks
   may refuse more, but never accept something the framing refuses or store other bytes *)
Definition evpn_dec_ok (c : bool * list Z * option (list Z * list Z)) : bool :=
  match c with (strict, d, e) =>
    if strict then ob_eqb (unpack_evpn_frame d) e
    else match e with None => true | Some _ => ob_eqb (unpack_evpn_frame d) e end end.
Definition nums_dec_ok (c : nat * list Z * option (list Z)) : bool :=
  match c with (w, d, e) => oz_eqb (dec_nums (length d) w d) e end.
Definition agg_dec_ok (c : bool * list Z * option (Z * list Z)) : bool :=
  match c with (asn4, d, e) =>
    match dec_aggregator asn4 d, e with
    | None, None => true | Some (a, ip), Some (a', ip') => (a =? a') && list_eqb ip ip' | _, _ => false end end.
Definition orig_dec_ok (c : list Z * option (list Z)) : bool := match c with (d, e) => oz_eqb (dec_originator d) e end.
Fixpoint bad {A} (f : A -> bool) (l : list A) (i : nat) : list nat :=
  match l with [] => [] | c :: l' => if f c then bad f l' (S i) else i :: bad f l' (S i) end.
"""


def _coq_ob(r):
    return 'None' if r is None else f'(Some ({zlist(r[0])}, {zlist(r[1])}))'


def structured_pass(run, rng, quick, conf_nlris):
    """correspondence of Model_NlriX with the real VPLS / RTC / EVPN classes and the attribute value decoders"""
    from exabgp.bgp.message import Action
    from exabgp.bgp.message.notification import Notify
    from exabgp.bgp.message.open.asn import ASN
    from exabgp.bgp.message.open.capability.negotiated import Negotiated
    from exabgp.bgp.message.update.attribute.attribute import Attribute
    from exabgp.bgp.message.update.attribute.community.extended import RouteTarget
    from exabgp.bgp.message.update.nlri.evpn.nlri import EVPN
    from exabgp.bgp.message.update.nlri.nlri import NLRI
    from exabgp.bgp.message.update.nlri.qualifier import RouteDistinguisher
    from exabgp.bgp.message.update.nlri.rtc import RTC
    from exabgp.bgp.message.update.nlri.vpls import VPLS
    from exabgp.protocol.family import AFI, SAFI

    neg = Negotiated.UNSET
    n = 300 if quick else 6000

    def unpack(afi, safi, data):
        try:
            o, rest = NLRI.unpack_nlri(afi, safi, bytes(data), Action.ANNOUNCE, None, neg)
            return (list(bytes(o._packed)), list(bytes(rest))), o
        except Notify:
            return None, None

    problems = []
    # ---- VPLS
    vpls_enc, vpls_dec = [], []
    vals = [(0, 0, 0, 0), (65535, 65535, 65535, 1048575), (5, 1, 8, 10702), (1, 0, 1, 1)]
    while len(vals) < n // 3:
        vals.append((rng.getrandbits(16), rng.getrandbits(16), rng.getrandbits(16), rng.choice([0, 1, 15, 16, 1048575, rng.getrandbits(20)])))
    objs = []
    for ve, off, size, base in vals:
        rd = rand_rd(rng)
        o = VPLS.make_vpls(RouteDistinguisher(bytes(rd)), ve, base, off, size)
        objs.append(o)
        vpls_enc.append(((rd, ve, off, size, base), list(bytes(o.pack_nlri(neg))), list(bytes(o.index()))))
        if (list(bytes(o.rd.pack_rd())), o.endpoint, o.offset, o.block_size, o.base) != (rd, ve, off, size, base):
            problems.append(('vpls-accessors', 'VPLS accessors do not return what make_vpls was given', {'rd': rd, 've': ve, 'offset': off, 'size': size, 'base': base}))
    for o in conf_nlris.get('VPLS', []):
        vpls_enc.append(((list(bytes(o.rd.pack_rd())), o.endpoint, o.offset, o.block_size, o.base), list(bytes(o.pack_nlri(neg))), list(bytes(o.index()))))
        objs.append(o)
    for o in objs:
        good = list(bytes(o.pack_nlri(neg)))
        for data in (good, good + [rng.getrandbits(8) for _ in range(rng.randint(1, 4))], good[: rng.randint(0, 18)],
                     [0, rng.choice([0, 16, 18, 20, 255])] + good[2:] + [rng.getrandbits(8) for _ in range(rng.choice([0, 1, 3]))],
                     [0, 20] + good[2:] + [1, 2, 3], [rng.getrandbits(8) for _ in range(rng.randint(0, 24))]):
            r, dec = unpack(AFI.l2vpn, SAFI.vpls, data)
            vpls_dec.append((data, r))
            if data is good and (dec is None or not (dec == o) or hash(dec) != hash(o) or dec.json() != o.json() or r[1]):
                problems.append(('vpls-roundtrip', 'decode(encode(vpls)) != vpls', {'bytes': bytes(good).hex()}))
    # ---- RTC
    rtc_enc, rtc_dec = [], []
    for i in range(n // 3):
        origin = rng.choice([0, 1, 65535, 65536, 4294967295, rng.getrandbits(32)])
        if i % 10 == 0:
            o = RTC.make_rtc(ASN(origin), None)
            rtb = None
        else:
            rtb = [rng.choice([0, 1, 2, 0x40, 0x41, 0x42, 0x80, 0xC0]), 2] + [rng.getrandbits(8) for _ in range(6)]
            try:
                o = RTC.make_rtc(ASN(origin), RouteTarget.unpack_attribute(bytes(rtb), None))
            except Exception:
                continue
        good = list(bytes(o.pack_nlri(neg)))
        rtc_enc.append((origin, rtb, good, list(bytes(o.index()))))
        for data in (good + [rng.getrandbits(8) for _ in range(rng.choice([0, 0, 2, 13]))], good[: rng.randint(0, max(0, len(good) - 1))],
                     [rng.choice([0, 1, 31, 32, 33, 64, 95, 96, 97, 255])] + good[1:] + [rng.getrandbits(8) for _ in range(rng.choice([0, 12]))],
                     good[:5] + [rng.getrandbits(8)] + good[6:], [rng.getrandbits(8) for _ in range(rng.randint(0, 16))]):
            r, dec = unpack(AFI.ipv4, SAFI.rtc, data)
            rtc_dec.append((data, r, list(bytes(dec.pack_nlri(neg))) if dec is not None else []))
        r, dec = unpack(AFI.ipv4, SAFI.rtc, good)
        if dec is None or not (dec == o) or hash(dec) != hash(o) or str(dec) != str(o) or dec.json() != o.json() or bytes(dec.pack_nlri(neg)) != bytes(good):
            problems.append(('rtc-roundtrip', 'decode(encode(rtc)) != rtc', {'bytes': bytes(good).hex()}))
    # partial prefixes (RFC 4684): every legal length, alone / first / last in the field, bits beyond the prefix set or clear
    for length in [0, 32, 33, 39, 40, 41, 47, 48, 56, 63, 64, 65, 72, 80, 88, 95, 96] + list(range(32, 97) if not quick else []):
        for position in ('alone', 'first', 'last', 'truncated'):
            for _ in range(2):
                size = (length + 7) // 8
                prefix = [rng.getrandbits(8) for _ in range(size)]
                if size >= 5 and rng.random() < 0.7:
                    prefix[4] &= 0x3F  # the two flag bits of the route target type octet clear, as ExaBGP writes it
                if length % 8 and rng.random() < 0.5 and size:
                    prefix[-1] &= (0xFF << (8 - length % 8)) & 0xFF
                one = [length] + prefix
                other = [96] + [rng.getrandbits(8) for _ in range(4)] + [0, 2] + [rng.getrandbits(8) for _ in range(6)]
                data = {'alone': one, 'first': one + other, 'last': one, 'truncated': one[: rng.randint(1, len(one))]}[position]
                if position == 'last':
                    # the decoder is handed what follows the previous NLRI: decode `other` first and continue on its rest
                    r0, _d0 = unpack(AFI.ipv4, SAFI.rtc, other + one)
                    if r0 is None or r0[1] != one:
                        problems.append(('rtc-field-walk', 'a full RTC NLRI did not leave exactly the following NLRI', {'bytes': bytes(other + one).hex()}))
                r, dec = unpack(AFI.ipv4, SAFI.rtc, data)
                again = list(bytes(dec.pack_nlri(neg))) if dec is not None else []
                rtc_dec.append((data, r, again))
                if position != 'truncated':
                    case = {'length_bits': length, 'position': position, 'bytes': bytes(data).hex()}
                    if dec is None:
                        problems.append(('rtc-partial-refused', 'an RTC NLRI with a legal prefix length is refused', case))
                        continue
                    if len(data) - len(r[1]) != 1 + size:
                        problems.append(('rtc-partial-consumed', 'an RTC NLRI did not take 1 + ceil(length/8) octets', dict(case, consumed=len(data) - len(r[1]))))
                    flags_clear = size < 5 or prefix[4] < 64
                    if flags_clear and again != one:
                        problems.append(('rtc-partial-reencode', 'encode(decode(bytes)) != the octets consumed', dict(case, reencoded=bytes(again).hex())))
                    r2, dec2 = unpack(AFI.ipv4, SAFI.rtc, again)
                    if dec2 is None or not (dec2 == dec) or hash(dec2) != hash(dec) or dec2.index() != dec.index() or str(dec2) != str(dec) or dec2.json() != dec.json():
                        problems.append(('rtc-partial-roundtrip', 'decode(encode(x)) != x for a decoded partial RTC NLRI', dict(case, reencoded=bytes(again).hex())))
    # ---- EVPN framing
    evpn_dec = []
    registered = set(EVPN.registered_evpn)
    for _ in range(n):
        code = rng.choice([0, 1, 2, 3, 4, 5, 6, 7, 100, 255, rng.getrandbits(8)])
        ln = rng.choice([0, 1, 2, 10, 23, 25, 33, 255, rng.getrandbits(8)])
        have = rng.choice([ln, ln, ln + rng.randint(1, 5), max(0, ln - rng.randint(1, 3)), 0])
        data = [code, ln] + [rng.getrandbits(8) for _ in range(have)]
        if rng.random() < 0.05:
            data = data[: rng.randint(0, 1)]
        try:
            r, dec = unpack(AFI.l2vpn, SAFI.evpn, data)
        except Exception as exc:  # type-specific decoders are not this model's subject; only the framing is judged
            continue
        evpn_dec.append((code not in registered, data, r))
    # ---- attribute values
    nums_dec, agg_dec, orig_dec = [], [], []
    by_code = {int(a): k for (a, f), k in Attribute.registered_attributes.items()}
    neg4 = Negotiated._create_unset(); neg4.asn4 = True
    neg2 = Negotiated._create_unset(); neg2.asn4 = False

    def value_of(o, ng):
        raw = bytes(o.pack_attribute(ng))
        return raw[4:] if raw[0] & 0x10 else raw[3:]

    for code, w in ((8, 4), (10, 4), (16, 8), (32, 12)):
        for _ in range(n // 6):
            k = rng.choice([0, 1, 2, 3, 21, 22, 32, 64, 65])
            items = set()
            while len(items) < k:
                items.add(bytes(rng.getrandbits(8) for _ in range(w)))
            data = b''.join(sorted(items) if code != 10 else list(items))
            if rng.random() < 0.3:
                data = data + bytes(rng.getrandbits(8) for _ in range(rng.randint(1, w - 1)))
            try:
                o = by_code[code].unpack_attribute(data, neg4)
                v = value_of(o, neg4) if len(data) else b''
                res = [int.from_bytes(v[i : i + w], 'big') for i in range(0, len(v), w)]
                if v != data:
                    problems.append((f'attr-value-reencode:{code}', 'encode(decode(value)) != value for a sorted, duplicate-free value', {'code': code, 'value': data.hex()}))
            except Exception:
                res = None
            nums_dec.append((w, list(data), res))
    for _ in range(n // 6):
        asn4 = rng.random() < 0.5
        data = bytes(rng.getrandbits(8) for _ in range(rng.choice([8, 6, 8, 6, 0, 4, 7, 9])))
        try:
            o = by_code[7].unpack_attribute(data, neg4 if asn4 else neg2)
            res = (int(o.asn), list(bytes(o.speaker.pack_ip())))
        except Exception:
            res = None
        agg_dec.append((asn4, list(data), res))
        data = bytes(rng.getrandbits(8) for _ in range(rng.choice([4, 4, 0, 3, 5, 16])))
        try:
            o = by_code[9].unpack_attribute(data, neg4)
            res2 = list(value_of(o, neg4))
        except Exception:
            res2 = None
        orig_dec.append((list(data), res2))

    def lit(kind, c):
        if kind == 'vpls_enc':
            (rd, ve, off, size, base), b, idx = c
            return f'(mkV {zlist(rd)} {ve} {off} {size} {base}, {zlist(b)}, {zlist(idx)})'
        if kind == 'vpls_dec':
            return f'({zlist(c[0])}, {_coq_ob(c[1])})'
        if kind == 'rtc_dec':
            return f'({zlist(c[0])}, {_coq_ob(c[1])}, {zlist(c[2])})'
        if kind == 'rtc_enc':
            return f'({c[0]}, {coq_opt(c[1])}, {zlist(c[2])}, {zlist(c[3])})'
        if kind == 'evpn_dec':
            return f'({"true" if c[0] else "false"}, {zlist(c[1])}, {_coq_ob(c[2])})'
        if kind == 'nums_dec':
            return f'({c[0]}%nat, {zlist(c[1])}, {coq_opt(c[2])})'
        if kind == 'agg_dec':
            e = 'None' if c[2] is None else f'(Some ({c[2][0]}, {zlist(c[2][1])}))'
            return f'({"true" if c[0] else "false"}, {zlist(c[1])}, {e})'
        return f'({zlist(c[0])}, {coq_opt(c[1])})'

    groups = [
        ('vpls_enc', 'vpls * list Z * list Z', 'vpls_enc_ok', vpls_enc), ('vpls_dec', 'list Z * option (list Z * list Z)', 'vpls_dec_ok', vpls_dec),
        ('rtc_enc', 'Z * option (list Z) * list Z * list Z', 'rtc_enc_ok', rtc_enc), ('rtc_dec', 'list Z * option (list Z * list Z) * list Z', 'rtc_dec_ok', rtc_dec),
        ('evpn_dec', 'bool * list Z * option (list Z * list Z)', 'evpn_dec_ok', evpn_dec),
        ('nums_dec', 'nat * list Z * option (list Z)', 'nums_dec_ok', nums_dec),
        ('agg_dec', 'bool * list Z * option (Z * list Z)', 'agg_dec_ok', agg_dec), ('orig_dec', 'list Z * option (list Z)', 'orig_dec_ok', orig_dec),
    ]
    shards = []
    for kind, ty, fn, cases in groups:
        for chunk in common.chunked(list(range(len(cases))), 250):
            shards.append((kind, ty, fn, cases, chunk))

    def defs(sh):
        kind, ty, fn, cases, chunk = sh
        return (f'Definition cases : list ({ty}) := [' + ';\n'.join(lit(kind, cases[i]) for i in chunk) + f'].\nEval vm_compute in (bad {fn} cases 0).\n')

    res = common.eval_cases(HEADER_X, defs, shards, 'c15_x')
    ran = all(rc == 0 for rc, _, _ in res)
    bad = collections.defaultdict(list)
    for sh, (rc, out, parsed) in zip(shards, res):
        if rc == 0 and parsed:
            bad[sh[0]] += [sh[3][sh[4][j]] for j in common.nat_list_of(parsed[0])]
    logs = [out for rc, out, _ in res if rc != 0]
    counts = {kind: len(cases) for kind, _, _, cases in groups}
    return ran, logs, counts, bad, problems


# ------------------------------------------------------------------------------- (E) equal objects decoded from different wire bytes


def equal_sets_pass(fail, rng, quick):
    """Attribute sets and routes DECODED from wire bytes in which the set-like attributes (COMMUNITY, EXTENDED and
    LARGE COMMUNITY, CLUSTER_LIST, AS_SET members) list the same values in every order and with duplicates.
    Whatever `==` identifies must have the same index(), hash(), text, be one dict key, and give equal routes with
    equal Route.index().  Nothing is demanded of pairs that `==` tells apart."""
    import itertools
    import struct
    from exabgp.bgp.message.open.capability.negotiated import Negotiated
    from exabgp.bgp.message.update.attribute.collection import AttributeCollection
    from exabgp.bgp.message.update.nlri.cidr import CIDR
    from exabgp.bgp.message.update.nlri.inet import INET
    from exabgp.protocol.family import AFI, SAFI
    from exabgp.protocol.ip import IP
    from exabgp.rib.route import Route

    neg = Negotiated.UNSET
    origin = bytes([0x40, 1, 1, 0])
    nexthop = bytes([0x40, 3, 4, 10, 0, 0, 1])
    nlri = INET.from_cidr(CIDR.create_cidr(IP.pton('192.0.2.0'), 24), AFI.ipv4, SAFI.unicast)

    def attr(flag, code, body):
        if len(body) > 255:
            return bytes([flag | 0x10, code]) + struct.pack('!H', len(body)) + body
        return bytes([flag, code, len(body)]) + body

    def aspath(segments):
        return attr(0x40, 2, b''.join(bytes([t, len(m)]) + b''.join(struct.pack('!H', a) for a in m) for t, m in segments))

    def decode(spec):
        """spec: dict kind -> list of elements in wire order"""
        data = origin + aspath([(2, [65000])] + ([(1, spec['as-set'])] if spec.get('as-set') else [])) + nexthop
        for kind, flag, code in (('community', 0xC0, 8), ('cluster-list', 0x80, 10), ('extended-community', 0xC0, 16), ('large-community', 0xC0, 32)):
            if spec.get(kind):
                data += attr(flag, code, b''.join(spec[kind]))
        # a new collection for every call: the "same bytes as the previous UPDATE" shortcut is C19's subject
        return AttributeCollection().parse(data, neg), data

    def elements(kind, k):
        out = set()
        while len(out) < k:
            if kind == 'community':
                out.add(struct.pack('!HH', rng.choice([0, 64512, 65000, 65535]), rng.choice([0, 1, 2, 700, 65281, rng.getrandbits(16)])))
            elif kind == 'cluster-list':
                out.add(bytes(rng.getrandbits(8) for _ in range(4)))
            elif kind == 'extended-community':
                out.add(bytes([rng.choice([0x00, 0x01, 0x02, 0x40, 0x43]), rng.choice([2, 3])]) + bytes(rng.getrandbits(8) for _ in range(6)))
            elif kind == 'large-community':
                out.add(struct.pack('!LLL', rng.choice([1, 65000, 4294967295]), rng.getrandbits(3), rng.getrandbits(3)))
            else:
                out.add(rng.choice([1, 2, 3, 100, 65000, 65535, rng.getrandbits(16)]))
        return sorted(out)

    kinds = ['community', 'extended-community', 'large-community', 'cluster-list', 'as-set']
    stats = collections.Counter()
    groups = []
    for kind in kinds:
        for k in (2, 3, 4):
            for _ in range(2 if quick else 12):
                base = elements(kind, k)
                orders = [list(o) for o in itertools.permutations(base)]
                if len(orders) > 10:
                    orders = [orders[0]] + rng.sample(orders[1:], 9)
                variants = orders + [orders[-1] + [base[0]], [base[-1]] + orders[0], base + base]
                groups.append([{kind: v} for v in variants])
    for _ in range(4 if quick else 40):  # several set-like attributes reordered at once
        bases = {kind: elements(kind, rng.choice([2, 3])) for kind in kinds}
        group = []
        for _v in range(8):
            group.append({kind: rng.sample(b, len(b)) for kind, b in bases.items()})
        groups.append(group)

    def text_of_spec(spec):
        return {k: [x.hex() if isinstance(x, bytes) else x for x in v] for k, v in spec.items()}

    for group in groups:
        decoded = []
        for spec in group:
            try:
                a, data = decode(spec)
            except Exception as exc:
                stats['refused'] += 1
                continue
            decoded.append((spec, a, data))
        for (s1, a, d1), (s2, b, d2) in itertools.combinations(decoded, 2):
            kind = '+'.join(sorted(s1))
            try:
                e1, e2 = bool(a == b), bool(b == a)
            except Exception as exc:
                fail(f'eq-raises:attributes:{kind}', 'comparing two decoded attribute sets raised', {'a': d1.hex(), 'b': d2.hex(), 'error': str(exc)[:200]})
                continue
            case = {'kind': kind, 'a_wire_order': text_of_spec(s1), 'b_wire_order': text_of_spec(s2), 'a_attributes': d1.hex(), 'b_attributes': d2.hex(),
                    'a_text': repr(a), 'b_text': repr(b)}
            if e1 != e2:
                fail(f'eq-not-symmetric:attributes:{kind}', 'a == b and b == a disagree', case)
                continue
            if not e1:
                stats['unequal:' + kind] += 1
                continue
            stats['equal:' + kind] += 1
            if a.index() != b.index():
                fail(f'eq-but-index-differs:attributes:{kind}', 'two decoded attribute sets compare equal but their index() differ',
                     dict(case, a_index=a.index().decode(errors='replace'), b_index=b.index().decode(errors='replace')))
            if hash(a) != hash(b):
                fail(f'eq-but-hash-differs:attributes:{kind}', 'two decoded attribute sets compare equal but their hash() differ', case)
            if len({a: 1, b: 2}) != 1:
                fail(f'eq-but-two-dict-keys:attributes:{kind}', 'two decoded attribute sets compare equal but are two keys of one dict', case)
            if repr(a) != repr(b):
                fail(f'eq-but-text-differs:attributes:{kind}', 'two decoded attribute sets compare equal but render differently', case)
            ra, rb = Route(nlri, a, nexthop=IP.from_string('10.0.0.1')), Route(nlri, b, nexthop=IP.from_string('10.0.0.1'))
            if not (ra == rb) or ra != rb:
                fail(f'eq-attributes-but-routes-differ:{kind}', 'same NLRI, equal attribute sets, but the routes are not ==', case)
            if ra.index() != rb.index():
                fail(f'eq-but-route-index-differs:{kind}', 'equal routes have different Route.index()', case)
            if ra.extensive() != rb.extensive():
                fail(f'eq-but-route-text-differs:{kind}', 'equal routes render differently', case)
            for code in a:
                if code in b:
                    x, y = a[code], b[code]
                    try:
                        same = bool(x == y)
                    except Exception:
                        continue
                    if same and (repr(x) != repr(y) or str(x) != str(y)):
                        fail(f'eq-but-text-differs:attribute-{int(code)}', 'two decoded attributes compare equal but render differently',
                             dict(case, attribute=int(code), a_attr=repr(x), b_attr=repr(y)))
    return stats


# ------------------------------------------------------------------------------- (F) renderings do not depend on what was called before


def render_order_pass(fail, rng, quick):
    """"the JSON and text renderings of a decoded object are deterministic functions of its bytes": every rendering
    entry point with every option combination the encoders use is called on DECODED objects in several orders on the
    same object (A then B, B then A, A twice, all of them shuffled), on objects handed out twice by the decoder's
    own cache, and as UPDATE sequences through the API encoders; each (entry point, options) must give the string a
    fresh decode of the same bytes gives when that entry point is the first thing called."""
    import struct
    from exabgp.bgp.message import Action
    from exabgp.bgp.message.direction import Direction
    from exabgp.bgp.message.open.capability.negotiated import Negotiated
    from exabgp.bgp.message.update import UpdateCollection
    from exabgp.bgp.message.update.attribute.collection import AttributeCollection
    from exabgp.bgp.message.update.nlri.nlri import NLRI
    from exabgp.bgp.neighbor import Neighbor
    from exabgp.protocol.family import AFI, SAFI
    from exabgp.protocol.ip import IP
    from exabgp.reactor.api.response.json import JSON
    from exabgp.rib.route import Route

    stats = collections.Counter()
    neg = Negotiated(Neighbor(), Direction.IN)
    neg.families = [(AFI.ipv4, SAFI.unicast)]

    def attr(flag, code, body):
        return bytes([flag, code, len(body)]) + body

    origin = attr(0x40, 1, b'\x00')
    aspath = attr(0x40, 2, bytes([2, 2]) + struct.pack('!HH', 65001, 65002))
    optional = [
        attr(0x40, 3, bytes([10, 0, 0, 1])), attr(0x80, 4, struct.pack('!L', 50)), attr(0x40, 5, struct.pack('!L', 200)), attr(0x40, 6, b''),
        attr(0xC0, 7, struct.pack('!L', 65001) + bytes([1, 2, 3, 4])), attr(0xC0, 8, struct.pack('!HHHH', 65001, 100, 65000, 7)),
        attr(0x80, 9, bytes([9, 9, 9, 9])), attr(0x80, 10, bytes([1, 1, 1, 1, 2, 2, 2, 2])),
        attr(0xC0, 16, bytes([0, 2, 0xFD, 0xE8, 0, 0, 0, 1])), attr(0xC0, 32, struct.pack('!LLL', 65000, 1, 2)), attr(0xC0, 0x99, b'\x01\x02'),
    ]
    attr_subjects = [origin + aspath + optional[0] + optional[1] + optional[5], origin + aspath + optional[1] + optional[5],
                     origin + aspath + b''.join(optional)]
    for _ in range(4 if quick else 40):
        picks = [o for o in optional if rng.random() < 0.5]
        attr_subjects.append(origin + aspath + b''.join(picks))

    def check_subject(kind, describe, make, entries):
        """make() -> a freshly decoded object; entries: [(name, fn)]"""
        ref = {}
        for name, fn in entries:
            try:
                ref[name] = fn(make())
            except Exception as exc:
                ref[name] = f'EXC {type(exc).__name__}'
        names = [n for n, _ in entries]
        fns = dict(entries)

        def call(obj, name):
            try:
                return fns[name](obj)
            except Exception as exc:
                return f'EXC {type(exc).__name__}'

        def judge(history, obj, name):
            got = call(obj, name)
            stats[kind + ':calls'] += 1
            if got != ref[name]:
                fail(f'rendering-depends-on-history:{kind}:{name}',
                     'a rendering of a decoded object is not what a fresh decode of the same bytes gives: it depends on what was rendered before',
                     dict(describe, entry_point=name, called_before=history, got=str(got)[:400], fresh=str(ref[name])[:400]))
            return got

        for first in names:
            for second in names:
                obj = make()
                judge([], obj, first)
                judge([first], obj, second)
                judge([first, second], obj, first)
        order = names * 2
        rng.shuffle(order)
        obj = make()
        done = []
        for name in order:
            judge(list(done), obj, name)
            done.append(name)

    attr_entries = [
        ('json()', lambda a: a.json()), ('json(include_nexthop=True)', lambda a: a.json(include_nexthop=True)),
        ('json(generic=True)', lambda a: a.json(generic=True)), ('json(include_nexthop=True,generic=True)', lambda a: a.json(include_nexthop=True, generic=True)),
        ('repr', lambda a: repr(a)), ('str', lambda a: str(a)), ('index()', lambda a: a.index().hex()),
    ]
    for data in attr_subjects:
        desc = {'attributes': data.hex()}
        check_subject('attributes', desc, lambda data=data: AttributeCollection().parse(data, neg), attr_entries)
        stats['attribute_sets'] += 1
        # the decoder's own cache hands the same object to consecutive identical attribute blocks: interleave
        ref = {n: f(AttributeCollection().parse(data, neg)) for n, f in attr_entries}
        for first, f1 in attr_entries:
            for second, f2 in attr_entries:
                AttributeCollection.unpack(origin + aspath, neg)  # something else in between resets "previous"
                o1 = AttributeCollection.unpack(data, neg)
                f1(o1)
                o2 = AttributeCollection.unpack(data, neg)
                got = f2(o2)
                stats['attributes-cache:calls'] += 1
                if got != ref[second]:
                    fail(f'rendering-depends-on-history:attributes-unpack-cache:{second}',
                         'the same attribute bytes decoded twice in a row render differently the second time, depending on what was rendered after the first decode',
                         dict(desc, entry_point=second, called_on_first_decode=first, same_object=o1 is o2, got=str(got)[:400], fresh=str(ref[second])[:400]))

    # NLRIs and routes decoded from bytes
    nlri_entries = [
        ('str', lambda n: str(n)), ('repr', lambda n: repr(n)), ('extensive()', lambda n: n.extensive()), ('json()', lambda n: n.json()),
        ('json(compact=True)', lambda n: n.json(compact=True)), ('json(announced=False)', lambda n: n.json(announced=False)),
        ('v4_json()', lambda n: n.v4_json()), ('v4_json(nexthop)', lambda n: n.v4_json(nexthop=IP.from_string('10.0.0.1'))),
        ('index()', lambda n: n.index().hex()),
    ]
    route_entries = [('extensive()', lambda r: r.extensive()), ('repr', lambda r: repr(r)), ('index()', lambda r: r.index().hex()),
                     ('nlri.json()', lambda r: r.nlri.json()), ('attributes.json()', lambda r: r.attributes.json()),
                     ('attributes.json(include_nexthop=True)', lambda r: r.attributes.json(include_nexthop=True))]
    n_nlri = 0
    while n_nlri < (12 if quick else 200):
        v = gen_value(rng)
        try:
            o = build(v)
        except Exception:
            continue
        addpath = v['pid'] is not None
        wire = bytes(o.pack_nlri(NEG[addpath]))
        afi, safi = AFI.from_int(v['afi']), SAFI.from_int(v['safi'])

        def make_nlri(wire=wire, afi=afi, safi=safi, addpath=addpath):
            return NLRI.unpack_nlri(afi, safi, wire, Action.ANNOUNCE, addpath, NEG[addpath])[0]

        try:
            make_nlri()
        except Exception:
            continue
        n_nlri += 1
        desc = {'family': f'{afi}/{safi}', 'nlri': wire.hex(), 'addpath': addpath}
        check_subject('nlri', desc, make_nlri, nlri_entries)
        adata = attr_subjects[n_nlri % len(attr_subjects)]
        check_subject('route', dict(desc, attributes=adata.hex()),
                      lambda make_nlri=make_nlri, adata=adata: Route(make_nlri(), AttributeCollection().parse(adata, neg), nexthop=IP.from_string('10.0.0.1')),
                      route_entries)
    stats['nlris'] = n_nlri

    # UPDATE sequences through the API encoders (v6 and v4 JSON, both attribute formats)
    def update(withdrawn, attributes, nlri):
        return struct.pack('!H', len(withdrawn)) + withdrawn + struct.pack('!H', len(attributes)) + attributes + nlri

    def prefix(a, b, c):
        return bytes([24, a, b, c])

    encoders = []
    for version in ('6.0.0', '4.0.0'):
        for generic in (False, True):
            try:
                enc = JSON(version)
                enc.generic_attribute_format = generic
                encoders.append((f'JSON({version},generic={generic})', enc))
            except Exception:
                pass
    unrelated = update(b'', origin + aspath + attr(0x40, 3, bytes([10, 0, 0, 2])), prefix(100, 64, 0))
    for adata in attr_subjects[: (4 if quick else 20)]:
        family = {
            'announce': update(b'', adata, prefix(203, 0, 113)),
            'withdraw+announce': update(prefix(192, 0, 2), adata, prefix(198, 51, 100)),
            'announce-other-prefix': update(b'', adata, prefix(198, 51, 100)),
            'withdraw-only-with-attributes': update(prefix(192, 0, 2), adata, b''),
        }
        for ename, enc in encoders:
            def render(data, enc=enc):
                try:
                    return enc._update(UpdateCollection.unpack_message(data, neg))['message']
                except Exception as exc:
                    return f'EXC {type(exc).__name__}: {exc}'[:200]

            ref = {}
            for name, data in family.items():
                render(unrelated)
                ref[name] = render(data)
            for n1, d1 in family.items():
                for n2, d2 in family.items():
                    render(unrelated)
                    render(d1)
                    got = render(d2)
                    stats['update:calls'] += 1
                    if got != ref[n2]:
                        fail(f'rendering-depends-on-history:update:{ename.split("(")[0]}',
                             'the API rendering of an UPDATE depends on the UPDATE that was decoded and rendered before it',
                             {'encoder': ename, 'update': d2.hex(), 'update_kind': n2, 'previous_update': d1.hex(), 'previous_kind': n1,
                              'got': got[:500], 'alone': ref[n2][:500]})
    return stats


# ------------------------------------------------------------------------------- the check


def describe_value(v):
    return {k: v[k] for k in ('afi', 'safi', 'pid', 'labels', 'rd', 'mask', 'ip') if k in v}


def check(tier, seed):
    run = Run(PID, tier, seed)
    run.trusted = [
        'Coq 8.16.1 kernel (coqc), vm_compute for case evaluation and the refutation witnesses; no native_compute',
        'translator translate/t10_registry.py (import-time reflection of NLRI.registered_nlri, Family.size, SAFI.has_label, '
        'Family.index, Attribute.registered_attributes; fail-closed on any unexpected class or size)',
        'harness/c15.py: generators, StubNegotiated (addpath.send only), field extraction from the real objects, '
        'check.py-style UPDATE round trip for the registered families and attributes, fresh-interpreter rendering',
        'modelled, not verified: INETBase/LabelBase/IPVPNBase pack_nlri, unpack_nlri, index, __hash__, CIDR, Labels, '
        'PathInfo, RouteDistinguisher, Family.index, Route.index (hand model Model_Nlri, tied by correspondence); '
        'inner syntax of Flow/VPLS/EVPN/RTC/MUP/MVPN/SR-policy/BGP-LS NLRIs and of every attribute value: not modelled, '
        'judged by the property oracle on the real objects only',
    ]
    run.assumptions = [
        'a round trip is stated for a session whose ADD-PATH setting matches the object (path-id stored iff ADD-PATH is sent); '
        'otherwise the decoder reports the path-id the session dictates (theorem C15_roundtrip_any_session)',
        'labels are not part of a labelled route index (DESIGN reading decision for C15)',
        "python's hash() of equal byte strings is equal (the model compares hash inputs)",
    ]
    common.standard_build(run, ['T10'])

    rng = random.Random(seed)
    quick = tier == 'quick'
    t0 = time.time()

    # ---------------------------------------------------------------- (A) values
    n_values = 700 if quick else 30000
    values = [gen_value(rng, 'valid') for _ in range(n_values)]
    # minimal members of the sentinel stream first (they become the replays): label [ 0 100 ] / [ 524288 100 ]
    for first in (0, 524288):
        values.append({'afi': 1, 'safi': 4, 'pid': None, 'labels': [first, 100], 'rd': None, 'mask': 24, 'ip': [10, 0, 0, 0], 'stream': 'sentinel'})
        values.append({'afi': 1, 'safi': 128, 'pid': None, 'labels': [first, 100], 'rd': [0, 0, 253, 232, 0, 0, 0, 1], 'mask': 24,
                       'ip': [10, 0, 0, 0], 'stream': 'sentinel'})
    values += [gen_value(rng, 'sentinel') for _ in range(60 if quick else 1500)]
    pairs = [(c, t, dict(a, stream='collision'), dict(b, stream='collision')) for c, t, a, b in WITNESS_PAIRS] + collision_pairs(rng)
    for _cls, _tag, a, b in pairs:
        values += [a, b]
    values += [dict(WITNESS_D14[0], stream='valid'), dict(WITNESS_D14[1], stream='valid')]
    # boundary sweep: every mask x every class with fixed qualifiers
    for afi in (1, 2):
        for safi in (1, 2, 4, 128):
            for mask in range(0, (32 if afi == 1 else 128) + 1, 1 if not quick else 1):
                if quick and mask not in MASKS6:
                    continue
                for pid in ((None, [255, 255, 255, 255]) if quick else (None, [0, 0, 0, 0], [255, 255, 255, 255])):
                    values.append({'afi': afi, 'safi': safi, 'pid': pid, 'labels': [] if safi < 4 else [1048575],
                                   'rd': [0, 2, 255, 255, 255, 255, 255, 255] if safi == 128 else None, 'mask': mask,
                                   'ip': [255] * ((mask + 7) // 8) + [0] * ((4 if afi == 1 else 16) - (mask + 7) // 8), 'stream': 'boundary'})

    # label stacks at the limit of the length octet (24 * labels + 64 (rd) + prefix bits <= 255)
    for afi, safi, nlab, mask in ((1, 4, 10, 15), (1, 4, 9, 32), (2, 4, 10, 15), (2, 4, 5, 128), (2, 4, 9, 39),
                                  (1, 128, 7, 23), (1, 128, 6, 32), (2, 128, 7, 23), (2, 128, 2, 128), (2, 128, 5, 71)):
        for pid in (None, [255, 255, 255, 255]):
            size = (mask + 7) // 8
            values.append({'afi': afi, 'safi': safi, 'pid': pid, 'labels': [1048575 - i for i in range(nlab)],
                           'rd': [0, 2, 255, 255, 255, 255, 255, 255] if safi == 128 else None, 'mask': mask,
                           'ip': [255] * (mask // 8) + ([(0xFF << (8 - mask % 8)) & 0xFF] if mask % 8 else []) + [0] * ((4 if afi == 1 else 16) - size),
                           'stream': 'boundary'})

    objs = []
    enc_cases = []
    build_errors = []
    for v in values:
        try:
            o = build(v)
        except Exception as exc:
            build_errors.append((v, f'{type(exc).__name__}: {exc}'))
            objs.append(None)
            continue
        objs.append(o)
        f = fields(o)
        enc_cases.append({'value': v, 'obj': o, 'fields': f, 'pack_t': list(bytes(o.pack_nlri(NEG[True]))),
                          'pack_f': list(bytes(o.pack_nlri(NEG[False]))), 'index': list(bytes(o.index()))})
    # the same values through the text grammar: the object must be the same object
    text_mismatch = []
    n_text = 0
    conf = None
    try:
        from exabgp.configuration.setup import create_minimal_configuration

        conf = create_minimal_configuration()
    except Exception as exc:
        run.notes.append(f'text grammar unavailable: {exc}')
    if conf is not None:
        for c in enc_cases[: (400 if quick else 5000)]:
            v = c['value']
            if v.get('stream') not in ('valid', 'boundary', 'collision'):
                continue
            t = text_of(v)
            if t is None or (v['safi'] == 128 and not v['labels']):
                continue
            try:
                routes = conf.parse_route_text(t)
            except Exception as exc:
                text_mismatch.append((t, f'{type(exc).__name__}: {exc}'))
                continue
            if not routes:
                continue
            o = routes[0].nlri
            if int(o.safi) != v['safi']:
                continue  # the text grammar derives unicast/multicast from the address class
            n_text += 1
            if type(o) is not type(c['obj']) or bytes(o._packed) != bytes(c['obj']._packed) or o.index() != c['obj'].index():
                text_mismatch.append((t, f'text gives {type(o).__name__} {bytes(o._packed).hex()}, factory gives '
                                         f'{type(c["obj"]).__name__} {bytes(c["obj"]._packed).hex()}'))

    # ---------------------------------------------------------------- (A) decoding cases
    dec_cases = []
    for c in enc_cases:
        v = c['value']
        for addpath in ((True, False) if rng.random() < 0.3 else (v['pid'] is not None,)):
            rest = [rng.getrandbits(8) for _ in range(rng.choice([0, 0, 1, 3, 6]))]
            data = (c['pack_t'] if addpath else c['pack_f']) + rest
            for w in ((False, True) if v.get('stream') == 'sentinel' else (rng.random() < 0.4,)):
                dec_cases.append({'afi': v['afi'], 'safi': v['safi'], 'withdraw': w, 'addpath': addpath, 'data': data,
                                  'origin': c, 'rest': rest, 'kind': 'roundtrip:' + v.get('stream', 'valid')})
    n_mal = 900 if quick else 40000
    for _ in range(n_mal):
        c = rng.choice(enc_cases)
        v = c['value']
        addpath = rng.random() < 0.4
        data, kind = mutate(rng, v['afi'], v['safi'], c['pack_t'] if addpath else c['pack_f'])
        dec_cases.append({'afi': v['afi'], 'safi': v['safi'], 'withdraw': rng.random() < 0.5, 'addpath': addpath, 'data': data,
                          'origin': None, 'rest': None, 'kind': 'malformed:' + kind})
    for d in dec_cases:
        d['result'] = decode(d['afi'], d['safi'], d['data'], d['withdraw'], d['addpath'])
    t_impl = time.time() - t0

    # ---------------------------------------------------------------- Coq evaluation
    t1 = time.time()
    ran, enc_bad, idx_bad, pin_bad, dec_bad, logs = eval_model(enc_cases, dec_cases, 'c15')
    spec_cases = []
    for c in enc_cases:
        v = c['value']
        if v.get('stream') in ('valid', 'boundary', 'sentinel', 'collision'):
            spec_cases.append((dict(v, rd=v['rd'] if v['safi'] == 128 else None, labels=v['labels'] if v['safi'] >= 4 else []),
                               c['pack_t'] if v['pid'] is not None else c['pack_f']))
    sran, spec_bad, slogs = eval_spec(spec_cases, 'c15')
    t_coq = time.time() - t1
    print(f'[C15] impl {t_impl:.1f}s coq eval {t_coq:.1f}s', flush=True)
    run.coverage['timing_s'] = {'implementation': round(t_impl, 1), 'coq_evaluation': round(t_coq, 1)}

    run.obligation('model evaluation (vm_compute of Model_Nlri pack/index/unpack on every case) ran', ran, '\n'.join(logs)[-2000:])
    run.obligation('spec evaluation (vm_compute of Spec_Nlri.rfc_encode on every constructed value) ran', sran, '\n'.join(slogs)[-2000:])
    run.obligation('every generated value is accepted by the factory methods', not build_errors,
                   f'{len(build_errors)} refused, first: {build_errors[:1]}')
    run.obligation(f'text grammar and factory methods build the same object ({n_text} values)', not text_mismatch,
                   f'{len(text_mismatch)} differ, first: {text_mismatch[:1]}')
    run.obligation(
        f'correspondence: pack_nlri (ADD-PATH on and off) = model on {len(enc_cases)} objects', not enc_bad,
        f'{len(enc_bad)} disagreements, first: {describe_value(enc_cases[enc_bad[0]]["value"]) if enc_bad else ""}')
    exc_cases = [i for i, d in enumerate(dec_cases) if d['result'][0] == 'exc']
    dec_all_bad = sorted(set(dec_bad) | set(exc_cases))
    run.obligation(
        f'correspondence: unpack_nlri = model on {len(dec_cases)} byte strings (round trips with trailing bytes + malformed)',
        not dec_all_bad,
        f'{len(dec_all_bad)} disagreements, first: '
        + (json.dumps({k: dec_cases[dec_all_bad[0]][k] for k in ("afi", "safi", "withdraw", "addpath", "data", "kind")})
           + ' impl=' + str(dec_cases[dec_all_bad[0]]['result'][:3])[:300] if dec_all_bad else ''))
    matches_pinned = len(enc_cases) - len(pin_bad)
    run.obligation(
        f'correspondence: index() = model index (length-prefixed path-id tag) on {len(enc_cases)} objects', not idx_bad,
        f'{len(idx_bad)} disagreements (the implementation agrees with the PINNED defective index on {matches_pinned}/{len(enc_cases)} objects); '
        f'first: {describe_value(enc_cases[idx_bad[0]]["value"]) if idx_bad else ""} impl index='
        f'{bytes(enc_cases[idx_bad[0]]["index"]).hex() if idx_bad else ""}')
    run.coverage['index_generation'] = 'repaired (length-prefixed tag)' if not idx_bad else (
        'pinned (D15)' if not pin_bad else 'neither model generation')
    run.obligation(
        f'property oracle: pack_nlri bytes = RFC 4271/7911/8277/4364 encoding (Spec_Nlri.rfc_encode) of the requested values on {len(spec_cases)} objects',
        not spec_bad, f'{len(spec_bad)} differ, first: {describe_value(spec_cases[spec_bad[0]][0]) if spec_bad else ""}')
    for i in spec_bad[:5]:
        v, data = spec_cases[i]
        run.fail_case(f'wire-bytes-differ-from-rfc:{KIND_OF_SAFI[v["safi"]]}', 'pack_nlri output is not the RFC encoding of the requested route',
                      {'value': describe_value(v), 'bytes': bytes(data).hex()})

    # ---------------------------------------------------------------- (A) property oracle on the real objects
    oracle_fail = collections.Counter()
    n_oracle = 0

    def fail(sig, what, case):
        oracle_fail[sig] += 1
        if oracle_fail[sig] <= 1:
            run.fail_case(sig, what, case)

    # decode(encode(x)) == x ; encode(decode(b)) == b ; trailing bytes untouched ; determinism
    for d in dec_cases:
        c = d['origin']
        if c is None:
            continue
        v = c['value']
        consistent = (v['pid'] is not None) == d['addpath']
        if not consistent:
            continue
        n_oracle += 1
        cls = type(c['obj']).__name__
        r = d['result']
        tag = 'withdraw' if d['withdraw'] else 'announce'
        sentinel = v.get('stream') == 'sentinel' and len(v['labels']) > 1
        lab = 'label-stack-starting-with-%d' % v['labels'][0] if sentinel else 'plain'
        case = {'value': describe_value(v), 'text': text_of(v), 'bytes': bytes(d['data']).hex(), 'trailing': len(d['rest']),
                'addpath': d['addpath'], 'action': tag}
        if r[0] != 'ok':
            fail(f'roundtrip-refused:{cls}:{lab}' if not sentinel else f'sentinel-first-label:{cls}:{lab}',
                 'ExaBGP refuses (or crashes on) the bytes it produced for this route', dict(case, outcome=str(r)[:200]))
            continue
        o2 = r[3]
        if r[2] != d['rest']:
            fail(f'roundtrip-trailing:{cls}:{lab}', 'decoding consumed a different number of bytes than encoding produced', dict(case, left=r[2]))
            continue
        if not (o2 == c['obj']) or o2.index() != c['obj'].index():
            fail(f'roundtrip-not-equal:{cls}:{lab}' if not sentinel else f'sentinel-first-label:{cls}:{lab}', 'decode(encode(x)) != x',
                 dict(case, decoded=str(o2), original=str(c['obj'])))
            continue
        if hash(o2) != hash(c['obj']):
            fail(f'roundtrip-hash:{cls}', 'decode(encode(x)) == x but the hashes differ', dict(case, decoded=str(o2)))
        again = bytes(o2.pack_nlri(NEG[d['addpath']]))
        if list(again) != d['data'][: len(d['data']) - len(d['rest'])]:
            fail(f'reencode-differs:{cls}:{lab}', 'encode(decode(bytes)) != bytes for bytes ExaBGP produced', dict(case, reencoded=again.hex()))
        if str(o2) != str(decode(d['afi'], d['safi'], d['data'], d['withdraw'], d['addpath'])[3]) or o2.json() != c['obj'].json():
            fail(f'rendering-differs:{cls}', 'str()/json() of the same bytes differ between decodes / from the original', case)

    # a == b  ->  same index, same hash: objects equal by index but built from different bytes
    n_eq = 0
    by_prefix = collections.defaultdict(list)
    for c in enc_cases:
        f = c['fields']
        by_prefix[(f['afi'], f['safi'])].append(c)
    eq_pairs = [(build(WITNESS_D14[0]), build(WITNESS_D14[1]), WITNESS_D14[0], WITNESS_D14[1])]
    for c in enc_cases[: (600 if quick else 20000)]:
        v = c['value']
        if v['safi'] >= 4 and v['labels']:
            other = dict(v, labels=[(v['labels'][0] + 1 + rng.getrandbits(8)) % 1048576 or 7] + list(v['labels'][1:]))
            if len(other['labels']) > 1 and other['labels'][0] in (0, 524288):
                other['labels'][0] = 9
            eq_pairs.append((c['obj'], build(other), v, other))
        eq_pairs.append((c['obj'], build(v), v, v))
    for a, b, va, vb in eq_pairs:
        n_eq += 1
        cls = type(a).__name__
        if a == b:
            if a.index() != b.index():
                fail(f'eq-but-index-differs:{cls}', 'a == b but a.index() != b.index()', {'a': describe_value(va), 'b': describe_value(vb)})
            if hash(a) != hash(b):
                fail(f'D14:eq-but-hash-differs:{cls}', 'a == b (same family, path-id, prefix, rd; labels differ) but hash(a) != hash(b)',
                     {'a': describe_value(va), 'b': describe_value(vb), 'a_text': text_of(va), 'b_text': text_of(vb),
                      'a_str': str(a), 'b_str': str(b)})
            if len({a, b}) != 1:
                fail(f'D14:eq-but-set-keeps-both:{cls}', 'a == b but a set keeps both', {'a': describe_value(va), 'b': describe_value(vb)}) \
                    if hash(a) == hash(b) else None
        elif va is vb:
            fail(f'same-value-not-equal:{cls}', 'two objects built from the same value are not ==', {'a': describe_value(va)})

    # routes that differ in family / path-id / prefix / rd never share an index
    n_coll = 0

    def identity(f):
        return (f['afi'], f['safi'], tuple(f['pid']) if f['pid'] is not None else None, f['mask'], tuple(f['pfx']), tuple(f['rd']))

    seen = {}
    for c in enc_cases:
        n_coll += 1
        key = bytes(c['index'])
        ident = identity(c['fields'])
        if key in seen and seen[key][0] != ident:
            other = seen[key][1]
            cls = type(c['obj']).__name__
            tag = 'no-pi' if b'no-pi' in key else ('disabled' if b'disabled' in key else 'other')
            fail(f'D15:index-collision:{cls}:{tag}',
                 'two routes that differ in path identifier and prefix (and rd) have the same index()',
                 {'a': describe_value(other['value']), 'b': describe_value(c['value']), 'a_str': str(other['obj']), 'b_str': str(c['obj']),
                  'a_text': text_of(other['value']), 'b_text': text_of(c['value']), 'index': key.hex(), 'a_eq_b': bool(other['obj'] == c['obj'])})
        seen.setdefault(key, (ident, c))
    # Route.index adds the family prefix
    try:
        from exabgp.rib.route import Route
        from exabgp.bgp.message.update.attribute.collection import AttributeCollection

        rseen = {}
        for c in enc_cases[:500]:
            ri = Route(c['obj'], AttributeCollection()).index()
            ident = identity(c['fields'])
            if ri in rseen and rseen[ri] != ident:
                fail(f'D15:route-index-collision:{type(c["obj"]).__name__}', 'two different routes share Route.index()', {'b': describe_value(c['value'])})
            rseen.setdefault(ri, ident)
            if not ri.endswith(bytes(c['index'])):
                fail('route-index-shape', 'Route.index() does not end with nlri.index()', {'b': describe_value(c['value'])})
    except Exception as exc:
        run.notes.append(f'Route.index pass skipped: {type(exc).__name__}: {exc}')

    # ---------------------------------------------------------------- (B) every registered family / attribute
    fams, attr_ids = registered()
    covered_fams = collections.Counter()
    covered_attrs = collections.Counter()
    n_b = 0
    conf_nlris = {}
    t2 = time.time()
    b_notes = {}
    child_items = []
    child_expect = []
    try:
        from exabgp.configuration.check import _negotiated

        paths = sorted(glob.glob(os.path.join(common.REPO, 'etc', 'exabgp', '*.conf')))
        entries, skipped = load_conf_routes(paths)
        b_notes['conf_files'] = len(paths)
        b_notes['conf_skipped'] = skipped
        for path, name, neighbor, routes in entries:
            try:
                negs = _negotiated(neighbor)
            except Exception as exc:
                b_notes.setdefault('negotiation_failed', {})[os.path.basename(path) + ':' + name] = f'{type(exc).__name__}'
                continue
            per_neighbor = 0
            for route in routes:
                if quick and per_neighbor >= 40:
                    break
                per_neighbor += 1
                fam = '{}/{}'.format(route.nlri.afi, route.nlri.safi)
                cls = type(route.nlri).__name__
                case = {'conf': os.path.relpath(path, common.REPO), 'neighbor': name, 'route': route.extensive()[:400], 'family': fam}
                try:
                    obs = update_roundtrip(neighbor, route, negs)
                except Exception as exc:
                    fail(f'update-roundtrip-exception:{fam}:{type(exc).__name__}',
                         'encoding a configured route and decoding the result raised', dict(case, error=f'{type(exc).__name__}: {exc}'[:300]))
                    continue
                if 'error' in obs:
                    fail(f'update-roundtrip:{fam}:{obs["error"]}', 'configured route could not be encoded and decoded back', case)
                    continue
                n_b += 1
                covered_fams[fam] += 1
                conf_nlris.setdefault(cls, []).append(route.nlri)
                case['update'] = obs['pack1'].hex()
                n2 = obs['nlri2']
                if type(n2) is not type(route.nlri) and not isinstance(n2, type(route.nlri)) and not isinstance(route.nlri, type(n2)):
                    fail(f'roundtrip-class:{fam}', 'decoded NLRI is of another class', dict(case, got=type(n2).__name__, want=cls))
                    continue
                if not obs['session_consistent']:
                    pass  # path-id configured but ADD-PATH not sent on this session (or the reverse): C15_roundtrip_any_session
                elif not (n2 == route.nlri):
                    fail(f'roundtrip-not-equal:{fam}:{cls}', 'decode(encode(nlri)) != nlri', dict(case, decoded=str(n2), original=str(route.nlri)))
                else:
                    if n2.index() != route.nlri.index():
                        fail(f'eq-but-index-differs:{fam}', 'equal NLRIs, different index()', case)
                    if hash(n2) != hash(route.nlri):
                        fail(f'eq-but-hash-differs:{fam}:{cls}', 'decode(encode(nlri)) == nlri but the hashes differ',
                             dict(case, decoded=str(n2), original=str(route.nlri)))
                if obs['pack2'] != obs['pack1']:
                    fail(f'reencode-differs:{fam}:{cls}', 'encode(decode(UPDATE bytes ExaBGP produced)) != those bytes',
                         dict(case, reencoded=obs['pack2'].hex()))
                for code in route.attributes:
                    a1 = route.attributes[code]
                    if int(code) in attr_ids or True:
                        if code in obs['attrs2']:
                            covered_attrs[int(code)] += 1
                            a2 = obs['attrs2'][code]
                            same = attr_same(a1, a2, negs[1])
                            if not same:
                                extra = ':2-byte-as-session' if int(code) == 2 and not negs[1].asn4 else ''
                                fail(f'attribute-roundtrip-not-equal:{int(code)}:{type(a1).__name__}{extra}', 'decode(encode(attribute)) != attribute',
                                     dict(case, attribute=int(code), original=str(a1)[:200], decoded=str(a2)[:200]))
                if obs['render_a'] != obs['render_b']:
                    fail(f'rendering-differs:{fam}', 'str()/json() of the same UPDATE bytes decoded twice differ',
                         dict(case, first=obs['render_a'], second=obs['render_b']))
                if len(child_items) < (300 if quick else 5000):
                    pack1 = obs['pack1']
                    body = pack1[19:] if pack1.startswith(b'\xff' * 16) else pack1
                    child_items.append({'conf': path, 'neighbor': name, 'hex': body.hex()})
                    child_expect.append((obs['render_a'], case))
    except Exception as exc:
        import traceback

        run.obligation('part B (registered families and attributes through the configuration path) ran', False, traceback.format_exc()[-1500:])
    # fresh interpreter, other hash seed
    child_ok = True
    child_detail = ''
    if child_items:
        spec_path = os.path.join(common.work_dir(), 'c15_child.json')
        json.dump(child_items, open(spec_path, 'w'))
        env = dict(os.environ, PYTHONHASHSEED='4242', exabgp_log_enable='false')
        try:
            p = subprocess.run([sys.executable, '-c', 'import sys; from harness import c15; c15.child_main(sys.argv[1])', spec_path],
                               env=env, cwd=common.VERIF, stdout=subprocess.PIPE, stderr=subprocess.PIPE, timeout=900, text=True)
            got = json.loads(p.stdout[p.stdout.index('['):]) if p.returncode == 0 and '[' in p.stdout else None
            if got is None or len(got) != len(child_items):
                child_ok, child_detail = False, (p.stderr or p.stdout)[-1500:]
            else:
                for g, (want, case) in zip(got, child_expect):
                    if g is None:
                        continue
                    if g != want:
                        fail(f'rendering-differs-across-interpreters:{case["family"]}',
                             'str()/json() of the same bytes differ in a fresh interpreter (other hash seed)', dict(case, here=want, fresh=g))
        except Exception as exc:
            child_ok, child_detail = False, f'{type(exc).__name__}: {exc}'
    t_b = time.time() - t2
    run.obligation(f'fresh-interpreter decoding of {len(child_items)} UPDATEs ran', child_ok, child_detail)

    # text-grammar routes with attributes through the same UPDATE round trip, on a session whose ADD-PATH
    # setting matches the route (two sessions: ADD-PATH off / on, the eight IP families, AIGP enabled)
    n_t = 0
    try:
        import copy as _copy
        from exabgp.configuration.check import _negotiated
        from exabgp.configuration.setup import create_minimal_configuration
        from exabgp.util.enumeration import TriState

        all_ip = ('ipv4 unicast ipv4 multicast ipv4 nlri-mpls ipv4 mpls-vpn ipv6 unicast ipv6 multicast '
                  'ipv6 nlri-mpls ipv6 mpls-vpn')
        sessions = {}
        for ap in (False, True):
            tconf = create_minimal_configuration(families=all_ip, add_path=ap)
            nb = _copy.deepcopy(next(iter(tconf.neighbors.values())))
            nb.session.local_as = nb.session.peer_as
            nb.capability.aigp = TriState.TRUE
            if ap:
                nb.capability.add_path = 3
            sessions[ap] = (tconf, nb, _negotiated(nb))
        for t, v in text_routes(rng, 300 if quick else 6000):
            tconf, nb, negs = sessions[v['pid'] is not None]
            try:
                routes = tconf.parse_route_text(t)
            except Exception:
                continue
            for route in routes:
                fam = '{}/{}'.format(route.nlri.afi, route.nlri.safi)
                if (route.nlri.afi, route.nlri.safi) not in nb.families():
                    continue
                case = {'text': t, 'family': fam, 'addpath_session': v['pid'] is not None}
                try:
                    obs = update_roundtrip(nb, route, negs)
                except Exception as exc:
                    fail(f'update-roundtrip-exception:text:{fam}:{type(exc).__name__}', 'encoding a text route and decoding the result raised',
                         dict(case, error=f'{type(exc).__name__}: {exc}'[:300]))
                    continue
                if 'error' in obs:
                    continue
                n_t += 1
                covered_fams[fam] += 1
                case['update'] = obs['pack1'].hex()
                if obs['session_consistent'] and not (obs['nlri2'] == route.nlri):
                    fail(f'roundtrip-not-equal:{fam}:{type(route.nlri).__name__}', 'decode(encode(nlri)) != nlri',
                         dict(case, decoded=str(obs['nlri2']), original=str(route.nlri)))
                elif obs['session_consistent'] and hash(obs['nlri2']) != hash(route.nlri):
                    fail(f'eq-but-hash-differs:{fam}:{type(route.nlri).__name__}', 'decode(encode(nlri)) == nlri but the hashes differ', case)
                if obs['pack2'] != obs['pack1']:
                    fail(f'reencode-differs:{fam}:{type(route.nlri).__name__}', 'encode(decode(UPDATE)) != UPDATE', case)
                if obs['render_a'] != obs['render_b']:
                    fail(f'rendering-differs:{fam}', 'str()/json() of the same UPDATE bytes decoded twice differ', case)
                for code in route.attributes:
                    if code in obs['attrs2']:
                        a1, a2 = route.attributes[code], obs['attrs2'][code]
                        if type(a2).__name__ != 'Discard':
                            covered_attrs[int(code)] += 1
                        if not attr_same(a1, a2, negs[1]):
                            fail(f'attribute-roundtrip-not-equal:{int(code)}:{type(a1).__name__}', 'decode(encode(attribute)) != attribute',
                                 dict(case, attribute=int(code), original=str(a1)[:200], decoded=str(a2)[:200]))
    except Exception as exc:
        import traceback

        run.obligation('text-route pass (IP families x attributes through the UPDATE encoder/decoder) ran', False, traceback.format_exc()[-1500:])

    # ---------------------------------------------------------------- (C) boundary lengths
    n_c = 0
    t3 = time.time()
    try:
        n_flow, flow_lengths = flow_boundary(fail, quick)
        n_asp = aspath_factory_boundary(fail, quick)
        n_txt = text_attribute_boundary(fail, quick, covered_attrs)
        n_c = n_flow + n_asp + n_txt
        for f in flow_lengths:
            covered_fams[f] += 1
        covered_attrs[2] += n_asp
        run.coverage['boundary_lengths'] = {
            'flow_objects': n_flow, 'flow_wire_octets_min_max_distinct': flow_lengths,
            'flow_rule': 'every component-block length in a window around 240 (one/two octet prefix) and up to 4095, ipv4/ipv6 x flow/flow-vpn',
            'as_path_factory_objects': n_asp, 'as_path_segment_sizes': list(ASPATH_COUNTS),
            'as_path_rule': 'SEQUENCE/SET/CONFED_SEQUENCE/CONFED_SET, 2- and 4-byte sessions, ASNs below and above 65535',
            'text_attribute_objects': n_txt,
            'text_rule': 'community/cluster-list 62-65, large-community 20-22, extended-community 30-33 elements (attribute 248..264 octets), '
                         'as-path 254..512 ASNs, 4-byte and 2-byte sessions; label stacks at the 255-bit length octet in part A',
            'wall_s': round(time.time() - t3, 1)}
        run.obligation(f'boundary-length pass ran ({n_flow} FlowSpec NLRIs, {n_asp} factory AS paths, {n_txt} text attributes)',
                       n_flow >= 250 and n_asp >= 90 and n_txt >= 60, f'{n_flow} / {n_asp} / {n_txt} objects reached the round trip')
    except Exception:
        import traceback

        run.obligation('boundary-length pass ran', False, traceback.format_exc()[-1500:])

    # ---------------------------------------------------------------- (E) equal objects decoded from different wire bytes
    n_e = 0
    try:
        estats = equal_sets_pass(fail, rng, quick)
        n_e = sum(v for k, v in estats.items() if k.startswith(('equal:', 'unequal:')))
        n_equal = sum(v for k, v in estats.items() if k.startswith('equal:'))
        run.coverage['decoded_equal_sets'] = dict(estats, rule='attribute sets decoded from wire bytes listing the same COMMUNITY / EXTENDED / LARGE '
                                                  'COMMUNITY / CLUSTER_LIST / AS_SET values in every order and with duplicates, one or all five at once; every '
                                                  'pair that == identifies is judged on index(), hash(), dict key, text, Route ==, Route.index(), Route text')
        run.obligation(f'decoded-equal-sets pass ran ({n_e} pairs compared, {n_equal} identified by ==)', n_equal >= 50,
                       f'{dict(estats)}')
    except Exception:
        import traceback

        run.obligation('decoded-equal-sets pass ran', False, traceback.format_exc()[-1500:])

    # ---------------------------------------------------------------- (F) renderings do not depend on the call history
    n_f = 0
    try:
        fstats = render_order_pass(fail, rng, quick)
        n_f = sum(v for k, v in fstats.items() if k.endswith(':calls'))
        run.coverage['rendering_history'] = dict(fstats, rule='every rendering entry point x option combination (AttributeCollection.json with '
                                                 'include_nexthop / generic, repr, str, index; NLRI str, repr, extensive, json with compact / announced, v4_json; '
                                                 'Route extensive, repr, index) on decoded objects in all ordered pairs + a shuffled long sequence, on objects '
                                                 'handed out twice by AttributeCollection.unpack, and UPDATE pairs (announce, withdraw+announce, withdraw only, same '
                                                 'attribute bytes) through the v6 and v4 JSON encoders in both attribute formats; reference = fresh decode, first call')
        run.obligation(f'rendering-history pass ran ({n_f} renderings judged against a fresh decode)', n_f >= 2000, f'{dict(fstats)}')
    except Exception:
        import traceback

        run.obligation('rendering-history pass ran', False, traceback.format_exc()[-1500:])

    # ---------------------------------------------------------------- (D) VPLS / RTC / EVPN framing / attribute values
    try:
        t4 = time.time()
        xran, xlogs, xcounts, xbad, xproblems = structured_pass(run, rng, quick, conf_nlris)
        run.obligation('model evaluation (vm_compute of Model_NlriX: VPLS, RTC, EVPN framing, attribute value decoders) ran', xran, '\n'.join(xlogs)[-2000:])
        nbad = sum(len(v) for v in xbad.values())
        first = next(((k, v[0]) for k, v in xbad.items() if v), None)
        run.obligation(
            'correspondence: VPLS make/accessors/index/unpack, RTC make/accessors/index/unpack, EVPN framing, COMMUNITY / CLUSTER_LIST / '
            f'EXTENDED / LARGE value decoders, AGGREGATOR, ORIGINATOR_ID = Model_NlriX on {sum(xcounts.values())} cases {xcounts}',
            nbad == 0, f'{nbad} disagreements {({k: len(v) for k, v in xbad.items()})}; first: {str(first)[:600]}')
        for sig, what, case in xproblems[:20]:
            fail(sig, what, case)
        for fam in ('l2vpn/vpls', 'ipv4/rtc', 'l2vpn/evpn'):
            covered_fams[fam] += 1
        run.coverage['structured_families'] = dict(xcounts, wall_s=round(time.time() - t4, 1),
                                                   rule='factory-built and conf VPLS routes, RTC with every route-target flag combination and the wildcard, '
                                                        'EVPN frames of registered and unregistered route types, value lists of 0..65 elements incl. lengths '
                                                        'that are not a multiple of the element width; decoders also fed truncated, over-long and random bytes')
    except Exception:
        import traceback

        run.obligation('structured-family pass (VPLS / RTC / EVPN / attribute values) ran', False, traceback.format_exc()[-1500:])

    uncovered_f = [f for f in fams if not covered_fams.get(f)]
    uncovered_a = [a for a in attr_ids if not covered_attrs.get(a)]
    run.coverage['registered_families'] = {f: covered_fams.get(f, 0) for f in fams}
    run.coverage['registered_attributes'] = {str(a): covered_attrs.get(a, 0) for a in attr_ids}
    run.coverage['part_b'] = dict(b_notes, objects=n_b, text_routes=n_t, wall_s=round(t_b, 1),
                                  families_not_reached=uncovered_f, attributes_not_reached=uncovered_a)
    if uncovered_f or uncovered_a:
        run.notes.append(f'registered types with no object from etc/exabgp/*.conf or the text grammar (round trip not exercised, '
                         f'framing theorem only): families {uncovered_f}, attributes {uncovered_a}')

    total_fail = sum(oracle_fail.values())
    run.obligation(
        f'property oracle on the real objects: round trips ({n_oracle} prefix NLRIs, {n_b} configured routes, {n_t} text routes), '
        f'{n_c} boundary-length objects, eq => index/hash ({n_eq} constructed pairs, {n_e} pairs of decoded attribute sets), index injectivity ({n_coll} objects incl. {len(pairs)} near-colliding pairs), rendering determinism incl. {n_f} renderings in varied call orders',
        total_fail == 0, f'{total_fail} failing checks: {dict(oracle_fail)}')

    # ---------------------------------------------------------------- coverage
    dist = collections.Counter((KIND_OF_SAFI[c['value']['safi']], c['value'].get('stream', 'valid')) for c in enc_cases)
    dkinds = collections.Counter(d['kind'] for d in dec_cases)
    outcomes = collections.Counter(d['result'][0] for d in dec_cases)
    masks = collections.Counter(c['value']['mask'] // 8 * 8 for c in enc_cases)
    nlab = collections.Counter(len(c['fields']['labels']) for c in enc_cases)
    distinct = len({(bytes(c['pack_t']), c['value']['afi'], c['value']['safi']) for c in enc_cases}) + len(
        {(bytes(d['data']), d['afi'], d['safi'], d['withdraw'], d['addpath']) for d in dec_cases if len(d['data']) > 1})
    run.coverage.update({
        'evaluations': len(enc_cases) * 3 + len(dec_cases) + len(spec_cases) + n_b + n_t + n_eq + n_c,
        'distinct_nontrivial': distinct,
        'rule': 'prefix NLRIs of the 8 IP families built by the factory methods (and re-built through the text grammar) from random '
                'and boundary values (masks 0/1/7/8/9/.../32 and up to /128, path-id none/0/1/2^32-1/"no-p"/"disa"/random, 1-3 labels incl. '
                '0, 2^19, 2^20-1, rd types 0/1/2/random); pack_nlri under both ADD-PATH settings, index(), unpack_nlri of the produced bytes '
                'with trailing bytes under announce and withdraw, plus malformed byte strings (truncation, mask byte, no bottom-of-stack, '
                'the 0x800000/0x000000 sentinels, over-long masks, random); every route of etc/exabgp/*.conf and text routes with attributes '
                'through the UPDATE encoder/decoder. non-trivial = distinct (family, bytes) objects + distinct decoder inputs longer than one byte',
        'distribution': {f'{k}/{s}': n for (k, s), n in sorted(dist.items())},
        'decoder_inputs': dict(dkinds), 'decoder_outcomes': dict(outcomes),
        'mask_histogram': {str(k): v for k, v in sorted(masks.items())}, 'label_stack_depth': {str(k): v for k, v in sorted(nlab.items())},
        'exhaustive': False,
    })
    for c in enc_cases[:3]:
        run.samples.append({'value': describe_value(c['value']), 'pack_addpath': bytes(c['pack_t']).hex(), 'index': bytes(c['index']).hex()})
    for d in [d for d in dec_cases if d['kind'].startswith('malformed')][:3]:
        run.samples.append({'family': [d['afi'], d['safi']], 'bytes': bytes(d['data']).hex(), 'withdraw': d['withdraw'], 'addpath': d['addpath'],
                            'outcome': str(d['result'][:3])[:160]})
    if run.broken() and not run.failing:
        run.coverage['search'] = (f'{len(enc_cases)} constructed objects, {len(dec_cases)} decoder inputs, {n_b} configured and {n_t} text routes were '
                                  'judged by the property oracle; none failed')
    return run.finish(checker_cmd='make -C coq props/Prop_C15.vo && coqc -Q coq ExaV coq/props/Prop_C15.v (Print Assumptions)')
