"""T5 - import-time reflection of the path attribute registry -> coq/gen/Gen_AttrTable.v

Reflected from the imported classes of the tree under check (never from literals here):
  Attribute.registered_attributes: for every registered class its ID, FLAG and the RFC 7606 behaviour
  flags TREAT_AS_WITHDRAW, DISCARD, NO_DUPLICATE, VALID_ZERO, MANDATORY;
  Attribute.attributes_known / attributes_optional (as membership functions);
  Attribute.Flag.* bit and mask constants; the pseudo attribute codes INTERNAL_TREAT_AS_WITHDRAW /
  INTERNAL_DISCARD; AS path segment type codes; AS_TRANS; the EOR prefix and the two EOR lengths;
  Family.size (next-hop lengths and route distinguisher size per family).
Read from source by ast: RIBIN_WITHDRAW_FIRST (order of the announce / withdraw loops of UpdateHandler.handle and
handle_async; both must agree).
Probed by execution on two fixed inputs (the outcome must be one of the whitelisted behaviours):
  EXTNH_PER_FAMILY  MPRNLRI.unpack_attribute on a session with the RFC 8950 capability for ipv4 unicast only:
                    an IPv6 unicast MP_REACH_NLRI with a 4-octet next hop is accepted (false: the legal lengths are
                    looked up under the AFI the length suggests, for every family) or refused 3/0 (true: IPv6 next
                    hops are added for the negotiated <AFI, SAFI> only); ipv4 unicast with 16 octets must be accepted.
Fail closed: a registration key that is not (ID, FLAG | EXTENDED_LENGTH), a class whose registered id
differs from its ID, a non-boolean behaviour flag, a registered code whose value decoder is not in
MODELLED (hand-modelled in Model_Update.unpack_value) or OPAQUE (decoder abstracted, outcome supplied
by the harness), two classes for one code, or an `exabgp` imported from another tree all raise.
"""

from __future__ import annotations

import os

from translate.py2coq import Untranslatable, write_if_changed

# codes whose value decoder (unpack_attribute) is hand-modelled in Model_Update.unpack_value
MODELLED = {
    1: 'Origin', 2: 'ASPath', 3: 'NextHop', 4: 'MED', 5: 'LocalPreference', 6: 'AtomicAggregate',
    7: 'Aggregator', 8: 'Communities', 9: 'OriginatorID', 10: 'ClusterList', 14: 'MPRNLRI', 15: 'MPURNLRI',
    16: 'ExtendedCommunities', 17: 'AS4Path', 18: 'Aggregator4', 25: 'ExtendedCommunitiesIPv6',
    32: 'LargeCommunities',
}
# codes whose value decoder is abstracted (a Section variable of the model; the harness supplies its outcome)
OPAQUE = {22: 'PMSI', 23: 'TunnelEncap', 26: 'AIGP', 29: 'LinkState', 40: 'PrefixSid'}


def _int(v, what):
    if isinstance(v, bool) or not isinstance(v, int):
        raise Untranslatable(f'{what} is not an integer: {v!r}')
    return int(v)


def _bool(v, what):
    if not isinstance(v, bool):
        raise Untranslatable(f'{what} is not a boolean: {v!r}')
    return 'true' if v else 'false'


def table(repo=None):
    """-> list of dict rows, one per registered attribute code (sorted); used by the harness too."""
    from exabgp.bgp.message.update.attribute.attribute import Attribute
    import exabgp.bgp.message.update.attribute  # noqa: F401  (registers every class)
    import exabgp.bgp.message.update  # noqa: F401

    ext = _int(Attribute.Flag.EXTENDED_LENGTH, 'EXTENDED_LENGTH')
    rows = {}
    for (aid, flg), klass in Attribute.registered_attributes.items():
        aid = _int(aid, 'registered id')
        if aid in rows:
            raise Untranslatable(f'two registrations for attribute code {aid}')
        if _int(klass.ID, f'{klass.__name__}.ID') != aid:
            raise Untranslatable(f'{klass.__name__}: registered id {aid} differs from ID {klass.ID}')
        flag = _int(klass.FLAG, f'{klass.__name__}.FLAG')
        if flg != flag | ext:
            raise Untranslatable(f'{klass.__name__}: registration flag {flg} is not FLAG | EXTENDED_LENGTH')
        if flag & 0x3F:
            raise Untranslatable(f'{klass.__name__}: FLAG {flag:#x} has bits outside OPTIONAL | TRANSITIVE')
        name = klass.__name__
        if MODELLED.get(aid) != name and OPAQUE.get(aid) != name:
            raise Untranslatable(f'attribute code {aid} is decoded by {name}: neither modelled nor declared opaque')
        if Attribute.klass_by_id(aid) is not klass:
            raise Untranslatable(f'klass_by_id({aid}) is not the registered class')
        rows[aid] = {
            'id': aid, 'flag': flag, 'name': name,
            'taw': _bool(klass.TREAT_AS_WITHDRAW, name + '.TREAT_AS_WITHDRAW'),
            'discard': _bool(klass.DISCARD, name + '.DISCARD'),
            'nodup': _bool(klass.NO_DUPLICATE, name + '.NO_DUPLICATE'),
            'vzero': _bool(klass.VALID_ZERO, name + '.VALID_ZERO'),
            'mandatory': _bool(klass.MANDATORY, name + '.MANDATORY'),
            'opaque': 'true' if aid in OPAQUE else 'false',
        }
    missing = sorted(set(MODELLED) - set(rows))
    if missing:
        raise Untranslatable(f'modelled attribute codes no longer registered: {missing}')
    known = sorted(set(int(a) for a in Attribute.attributes_known))
    if known != sorted(rows):
        raise Untranslatable(f'attributes_known {known} differs from the registry {sorted(rows)}')
    optional = sorted(set(int(a) for a in Attribute.attributes_optional))
    if optional != sorted(a for a, r in rows.items() if r['flag'] & 0x80):
        raise Untranslatable('attributes_optional is not the set of registered codes with the OPTIONAL bit')
    return [rows[a] for a in sorted(rows)]


def _probe_extnh():
    from exabgp.bgp.message.notification import Notify
    from exabgp.bgp.message.update.attribute.mprnlri import MPRNLRI
    from exabgp.protocol.family import AFI, SAFI

    class Neg:
        families = [(AFI.ipv4, SAFI.unicast), (AFI.ipv6, SAFI.unicast)]
        nexthop = [(AFI.ipv4, SAFI.unicast, AFI.ipv6)]

        def required(self, afi, safi):
            return False

    def run(afi, nh, nlri):
        data = bytes([0, afi, 1, len(nh)]) + nh + b'\0' + nlri
        try:
            MPRNLRI.unpack_attribute(data, Neg())
            return 'accept'
        except Notify as e:
            return (int(e.code), int(e.subcode))

    v6 = bytes([0x20, 1, 0x0D, 0xB8] + [0] * 11 + [1])
    if run(1, v6, bytes([24, 10, 0, 0])) != 'accept':
        raise Untranslatable('probe: ipv4 unicast with a negotiated IPv6 next hop is not accepted')
    r = run(2, bytes([10, 0, 0, 1]), bytes([32, 0x20, 1, 0x0D, 0xB8]))
    if r == 'accept':
        return False
    if r == (3, 0):
        return True
    raise Untranslatable(f'probe: unexpected outcome {r} for an IPv6 unicast MP_REACH_NLRI with a 4-octet next hop')


def _probe_ribin_order():
    """Order of the two loops of UpdateHandler.handle / handle_async, read from the source by ast:
    True = the withdraws of an UPDATE are applied before its announces.  Fail closed: each method must hold exactly
    one `for ... in parsed.announces` and one `for ... in parsed.withdraws`, and both methods must agree."""
    import ast
    import inspect
    import textwrap
    from exabgp.reactor.peer.handlers.update import UpdateHandler

    orders = []
    for name in ('handle', 'handle_async'):
        fn = getattr(UpdateHandler, name)
        tree = ast.parse(textwrap.dedent(inspect.getsource(fn)))
        seen = []
        for node in ast.walk(tree):
            if isinstance(node, (ast.For, ast.AsyncFor)) and isinstance(node.iter, ast.Attribute) \
                    and isinstance(node.iter.value, ast.Name) and node.iter.value.id == 'parsed' \
                    and node.iter.attr in ('announces', 'withdraws'):
                seen.append((node.lineno, node.iter.attr))
        seen.sort()
        if sorted(a for _, a in seen) != ['announces', 'withdraws']:
            raise Untranslatable(f'UpdateHandler.{name}: expected one loop over parsed.announces and one over parsed.withdraws, found {seen}')
        orders.append(seen[0][1] == 'withdraws')
    if orders[0] != orders[1]:
        raise Untranslatable('UpdateHandler.handle and handle_async apply announces and withdraws in different orders')
    return orders[0]


def main(repo, gen_dir):
    import exabgp

    want = os.path.realpath(os.path.join(repo, 'src', 'exabgp'))
    got = os.path.realpath(os.path.dirname(exabgp.__file__))
    if want != got:
        raise Untranslatable(f'exabgp imported from {got}, expected {want}')

    from exabgp.bgp.message.update.attribute.attribute import Attribute, TreatAsWithdraw, Discard
    from exabgp.bgp.message.update.attribute.aspath import SET, SEQUENCE, CONFED_SEQUENCE, CONFED_SET, ASPath
    from exabgp.bgp.message.open.asn import AS_TRANS
    from exabgp.bgp.message.update.eor import EOR
    from exabgp.bgp.message.update import collection as ucol
    from exabgp.protocol.family import Family

    rows = table()
    L = ['(* GENERATED by translate/t5_attrtable.py from the imported exabgp package - do not edit. *)',
         'From Coq Require Import ZArith List Bool.', 'Import ListNotations.', 'Open Scope Z_scope.', '']

    def const(name, value):
        L.append(f'Definition {name} : Z := {_int(value, name)}.')

    F = Attribute.Flag
    for n in ('EXTENDED_LENGTH', 'PARTIAL', 'TRANSITIVE', 'OPTIONAL', 'MASK_EXTENDED', 'MASK_PARTIAL',
              'MASK_TRANSITIVE', 'MASK_OPTIONAL'):
        const('F_' + n, getattr(F, n))
    if (F.EXTENDED_LENGTH, F.PARTIAL, F.TRANSITIVE, F.OPTIONAL) != (0x10, 0x20, 0x40, 0x80):
        raise Untranslatable('attribute flag bits are not the RFC 4271 ones')
    if F.MASK_PARTIAL != 0xFF - F.PARTIAL:
        raise Untranslatable('MASK_PARTIAL is not the complement of PARTIAL')
    const('CODE_TREAT_AS_WITHDRAW', TreatAsWithdraw.ID)
    const('CODE_DISCARD', Discard.ID)
    if TreatAsWithdraw.ID != Attribute.CODE.INTERNAL_TREAT_AS_WITHDRAW or Discard.ID != Attribute.CODE.INTERNAL_DISCARD:
        raise Untranslatable('pseudo attribute ids differ from Attribute.CODE.INTERNAL_*')
    for n in ('ORIGIN', 'AS_PATH', 'NEXT_HOP', 'MED', 'LOCAL_PREF', 'ATOMIC_AGGREGATE', 'AGGREGATOR', 'COMMUNITY',
              'ORIGINATOR_ID', 'CLUSTER_LIST', 'MP_REACH_NLRI', 'MP_UNREACH_NLRI', 'EXTENDED_COMMUNITY', 'AS4_PATH',
              'AS4_AGGREGATOR', 'IPV6_EXTENDED_COMMUNITY', 'LARGE_COMMUNITY'):
        const('A_' + n, getattr(Attribute.CODE, n))
    const('SEG_SET', SET.ID)
    const('SEG_SEQUENCE', SEQUENCE.ID)
    const('SEG_CONFED_SEQUENCE', CONFED_SEQUENCE.ID)
    const('SEG_CONFED_SET', CONFED_SET.ID)
    if sorted(ASPath._DISPATCH) != sorted([SET.ID, SEQUENCE.ID, CONFED_SEQUENCE.ID, CONFED_SET.ID]):
        raise Untranslatable('ASPath._DISPATCH is not the four segment types')
    const('AS_TRANS_V', int(AS_TRANS))
    const('EOR_V4_LENGTH', ucol.EOR_IPV4_UNICAST_LENGTH)
    const('EOR_PREFIX_LENGTH', ucol.EOR_WITH_PREFIX_LENGTH)
    L.append('Definition EOR_PREFIX : list Z := [' + '; '.join(str(b) for b in EOR.EOR_NLRI.PREFIX) + '].')
    if len(EOR.EOR_NLRI.PREFIX) + 3 != ucol.EOR_WITH_PREFIX_LENGTH:
        raise Untranslatable('EOR prefix length + 3 differs from EOR_WITH_PREFIX_LENGTH')
    L.append('')

    L.append('Record attr_class := mkAC { ac_id : Z; ac_flag : Z; ac_taw : bool; ac_discard : bool; '
             'ac_nodup : bool; ac_vzero : bool; ac_mandatory : bool; ac_opaque : bool }.')
    L.append('')
    L.append('(* Attribute.registered_attributes, one row per code *)')
    L.append('Definition attr_table : list attr_class :=')
    items = []
    for r in rows:
        items.append(f'   mkAC {r["id"]} {r["flag"]} {r["taw"]} {r["discard"]} {r["nodup"]} {r["vzero"]} '
                     f'{r["mandatory"]} {r["opaque"]} (* {r["name"]} *)')
    L.append('  [' + ';\n  '.join(i.strip() for i in items).replace('(* ', '(* ') + '].')
    L.append('')
    L.append('(* Attribute.klass_by_id *)')
    L.append('Definition klass_by_id (aid : Z) : option attr_class :=')
    for r in rows:
        L.append(f'  if aid =? {r["id"]} then Some (mkAC {r["id"]} {r["flag"]} {r["taw"]} {r["discard"]} {r["nodup"]} '
                 f'{r["vzero"]} {r["mandatory"]} {r["opaque"]}) else')
    L.append('  None.')
    L.append('')
    L.append('Definition registered_codes : list Z := [' + '; '.join(str(r['id']) for r in rows) + '].')
    L.append('Definition opaque_codes : list Z := [' + '; '.join(str(r['id']) for r in rows if r['opaque'] == 'true') + '].')
    L.append('')

    # Family.size
    L.append('(* Family.size: (afi, safi) -> (allowed next-hop lengths, route distinguisher bytes) *)')
    L.append('Definition family_size (afi safi : Z) : option (list Z * Z) :=')
    for (afi, safi), (lens, rd) in sorted(Family.size.items(), key=lambda kv: (int(kv[0][0]), int(kv[0][1]))):
        ls = '; '.join(str(_int(int(x), 'nh len')) for x in lens)
        L.append(f'  if (afi =? {int(afi)}) && (safi =? {int(safi)}) then Some ([{ls}], {_int(int(rd), "rd")}) else')
    L.append('  None.')
    L.append('')
    L.append('(* probed: RFC 8950 next hop lengths added per negotiated <AFI, SAFI> (true) or looked up by length for every family (false) *)')
    L.append(f'Definition EXTNH_PER_FAMILY : bool := {"true" if _probe_extnh() else "false"}.')
    L.append('')
    L.append('(* read from the source of UpdateHandler.handle / handle_async: the withdraws of an UPDATE are applied before its announces *)')
    L.append(f'Definition RIBIN_WITHDRAW_FIRST : bool := {"true" if _probe_ribin_order() else "false"}.')
    L.append('')
    write_if_changed(os.path.join(gen_dir, 'Gen_AttrTable.v'), '\n'.join(L) + '\n')
