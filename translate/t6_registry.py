"""T6 - import-time reflection of the OPEN / capability registry -> coq/gen/Gen_Registry.v

Reflected (values read from the imported classes of the tree under check, never from literals here):
  capability codes (CapabilityCode), the set of codes with a registered decoder class,
  Capabilities._ADD_PATH / _NEXTHOP, OPEN parameter constants (OPEN_PARAM_LEN_MAX, extended marker,
  Parameter.*), Open.MINIMUM_BODY_SIZE, Version.BGP_4, HoldTime.MIN, AS_TRANS, ASN sizes,
  ExtendedMessage sizes, REFRESH.*, RequirePath.SEND/RECEIVE, Graceful masks, HostName.HOSTNAME_MAX_LEN.
Probed by execution on two fixed inputs (the outcome must be one of two whitelisted behaviours):
  LOCAL_AS_FROM_CAP     Negotiated.local_as for a 4-byte local AS: 2-octet OPEN field (false) or ASN4 capability (true)
  UNKNOWN_PARAM_SUBCODE subcode of the NOTIFICATION for an unknown optional parameter type (0 or 4)
  MS_VALUE_PARSED       MultiSession value: two TLVs [0],[code] and ignored on receipt (false) / one TLV [0, codes] read back (true)
  AUTO_AS_FROM_PEER_CAP local-as auto: OPEN = peer's 2-octet field + ASN4(0) (false) / peer's true AS in field and capability (true)
  AUTO_COLLISION_CHECK  local-as auto: validate() identifier collision never tested (false) / tested on the negotiated local AS (true)
  EXT_BY_TYPE_OCTET     RFC 9072 encoding recognised only when both marker octets are 255 (false) / by the type octet alone, length octet non-zero (true)
  COLLISION_ON_TRUE_AS  Negotiated.validate iBGP router-id collision test uses the 2-octet field (false) or the true peer AS (true)
Fail closed: a missing name, a non-integer, an unexpected registered capability code, an unexpected
probe outcome or an `exabgp` imported from another tree all raise.
"""

from __future__ import annotations

import os

from translate.py2coq import Untranslatable, write_if_changed

# capability codes whose decoder (unpack_capability) is hand-modelled in Model_Open.parse_cap; a code
# registered in the tree but absent here has an unmodelled decoder: refuse to generate.
MODELLED_DECODERS = {
    'MULTIPROTOCOL', 'ROUTE_REFRESH', 'NEXTHOP', 'EXTENDED_MESSAGE', 'GRACEFUL_RESTART', 'FOUR_BYTES_ASN',
    'MULTISESSION', 'ADD_PATH', 'ENHANCED_ROUTE_REFRESH', 'PATHS_LIMIT', 'LINK_LOCAL_NEXTHOP',
    'ROUTE_REFRESH_CISCO', 'MULTISESSION_CISCO', 'HOSTNAME', 'SOFTWARE_VERSION', 'OPERATIONAL',
}


def _int(v, what):
    if isinstance(v, bool) or not isinstance(v, int):
        raise Untranslatable(f'{what} is not an integer: {v!r}')
    return int(v)


def _probe():
    """Run Negotiated on two fixed OPEN pairs; classify the behaviour."""
    from exabgp.configuration.configuration import Configuration
    from exabgp.bgp.message import Message
    from exabgp.bgp.message.direction import Direction
    from exabgp.bgp.message.open import Open, Version
    from exabgp.bgp.message.open.capability import Capabilities
    from exabgp.bgp.message.open.capability.negotiated import Negotiated

    def neighbor(asn4):
        text = (
            'neighbor 127.0.0.1 { router-id 1.2.3.4; local-address 127.0.0.2; local-as 70000; peer-as 70000; '
            'capability { asn4 %s; } }' % ('enable' if asn4 else 'disable')
        )
        conf = Configuration([text], text=True)
        if not conf.reload():
            raise Untranslatable('probe configuration refused')
        return next(iter(conf.neighbors.values()))

    out = []
    for asn4 in (True, False):
        n = neighbor(asn4)
        neg = Negotiated(n, Direction.IN)
        ours = Open.make_open(Version(4), n.session.local_as, n.hold_time, n.session.router_id, Capabilities().new(n, False))
        # peer: AS_TRANS, hold 90, same router-id 1.2.3.4, ASN4(70000)
        body = bytes([4, 0x5B, 0xA0, 0, 90, 1, 2, 3, 4, 8, 2, 6, 0x41, 4, 0, 1, 0x11, 0x70])
        peer = Message.unpack(Message.CODE.OPEN, body, neg)
        neg.sent(ours)
        neg.received(peer)
        err = neg.validate(n)
        out.append((int(neg.local_as), None if err is None else (err[0], err[1])))
    (la_new, err_new), (la_old, _) = out
    if (la_new, la_old) == (23456, 23456):
        local_from_cap = False
    elif (la_new, la_old) == (70000, 23456):
        local_from_cap = True
    else:
        raise Untranslatable(f'probe: unexpected Negotiated.local_as behaviour {(la_new, la_old)}')
    if err_new is None:
        collision_true_as = False
    elif err_new == (2, 3):
        collision_true_as = True
    else:
        raise Untranslatable(f'probe: unexpected validate() outcome {err_new}')
    # unknown optional parameter type: RFC 4271 6.2 says 2/4 (Unsupported Optional Parameter); the code said 2/0
    from exabgp.bgp.message.notification import Notify

    neg = Negotiated(neighbor(True), Direction.IN)
    try:
        Message.unpack(Message.CODE.OPEN, bytes([4, 0xFD, 0xE9, 0, 90, 1, 2, 3, 4, 4, 3, 2, 0, 0]), neg)
        raise Untranslatable('probe: an unknown optional parameter was accepted')
    except Notify as exc:
        if (exc.code, exc.subcode) not in ((2, 0), (2, 4)):
            raise Untranslatable(f'probe: unknown optional parameter answered {exc.code}/{exc.subcode}')
        unknown_param = int(exc.subcode)
    return local_from_cap, collision_true_as, unknown_param


def open_exchange(neighbor, restarted, body):
    """Drive the real Protocol the way Peer._establish does (OPEN first, or the peer's OPEN first when the
    local AS is mirrored).  -> (our Open or None, peer Open or Notify, negotiated).  Used by harness/c07.py too."""
    from exabgp.bgp.message import Message
    from exabgp.bgp.message.notification import Notify
    from exabgp.configuration.neighbor.api import ParseAPI
    from exabgp.reactor.protocol import Protocol

    class Stats(dict):
        def __missing__(self, k):
            return 0

    class Peer:
        pass

    peer = Peer()
    peer.neighbor = neighbor
    peer.stats = Stats()
    peer.reactor = None
    peer._restarted = restarted
    if not getattr(neighbor, 'api', None):
        neighbor.api = ParseAPI.flatten({})
    proto = Protocol(peer)
    class Conn:
        def session(self):
            return 'verif'

    proto.connection = Conn()

    async def no_write(message, negotiated):
        message.pack_message(negotiated)

    proto.write = no_write

    def drive(coro):
        try:
            coro.send(None)
        except StopIteration as stop:
            return stop.value
        raise RuntimeError('coroutine suspended')

    ours = None
    if neighbor.session.local_as:
        ours = drive(proto.new_open())
        proto.negotiated.sent(ours)
    try:
        received = Message.unpack(Message.CODE.OPEN, bytes(body), proto.negotiated)
    except Notify as exc:
        return ours, exc, proto.negotiated
    proto.negotiated.received(received)
    if not neighbor.session.local_as:
        ours = drive(proto.new_open())
        proto.negotiated.sent(ours)
    return ours, received, proto.negotiated


def _probe2():
    """multi-session value codec and local-as auto: classify into whitelisted behaviours."""
    from exabgp.configuration.configuration import Configuration
    from exabgp.bgp.message.open.capability.capability import Capability
    from exabgp.bgp.message.open.capability.ms import MultiSession

    sent = MultiSession().set([Capability.CODE.MULTIPROTOCOL]).extract_capability_bytes()
    got = list(MultiSession.unpack_capability(MultiSession(), bytes([0, 2, 3]), Capability.CODE.MULTISESSION))
    if sent == [bytes([0]), bytes([1])] and got == []:
        ms_parsed = False
    elif sent == [bytes([0, 1])] and [int(x) for x in got] == [2, 3]:
        ms_parsed = True
    else:
        raise Untranslatable(f'probe: unexpected MultiSession codec {sent!r} / {got!r}')

    text = 'neighbor 127.0.0.1 { router-id 1.2.3.4; local-address 127.0.0.2; local-as auto; peer-as auto; }'
    conf = Configuration([text], text=True)
    if not conf.reload():
        raise Untranslatable('probe: local-as auto configuration refused')
    n = next(iter(conf.neighbors.values()))
    if int(n.session.local_as) != 0:
        raise Untranslatable('probe: local-as auto is not 0')
    # peer: AS_TRANS + ASN4(70000), the same router-id as ours
    body = bytes([4, 0x5B, 0xA0, 0, 90, 1, 2, 3, 4, 8, 2, 6, 0x41, 4, 0, 1, 0x11, 0x70])
    ours, received, neg = open_exchange(n, False, body)
    cap = ours.capabilities.get(Capability.CODE.FOUR_BYTES_ASN)
    seen = (int(ours.asn), None if cap is None else int(cap))
    if seen == (23456, 0):
        auto_true = False
    elif seen == (23456, 70000):
        auto_true = True
    else:
        raise Untranslatable(f'probe: unexpected OPEN for local-as auto {seen}')
    # collision test in auto mode, made independent of new_open: peer AS 65001 (fits the field), same identifier
    body = bytes([4, 0xFD, 0xE9, 0, 90, 1, 2, 3, 4, 8, 2, 6, 0x41, 4, 0, 0, 0xFD, 0xE9])
    ours, received, neg = open_exchange(n, False, body)
    err = neg.validate(n)
    if int(neg.local_as) != 65001:
        raise Untranslatable(f'probe: local-as auto with a 2-octet peer AS negotiated local_as {int(neg.local_as)}')
    if err is None:
        auto_collision = False
    elif (err[0], err[1]) == (2, 3):
        auto_collision = True
    else:
        raise Untranslatable(f'probe: unexpected validate() outcome in auto mode {err[:2]}')
    # RFC 9072: the extended encoding is selected by the type octet (255) whatever the non-zero length octet before it
    from exabgp.bgp.message import Message
    from exabgp.bgp.message.direction import Direction
    from exabgp.bgp.message.notification import Notify
    from exabgp.bgp.message.open.capability.negotiated import Negotiated

    body = bytes([4, 0xFD, 0xE9, 0, 90, 1, 2, 3, 5]) + bytes([4, 255, 0, 5, 2, 0, 2, 2, 0])  # length octet 4, route-refresh
    try:
        o = Message.unpack(Message.CODE.OPEN, body, Negotiated(n, Direction.IN))
        if [int(k) for k in o.capabilities] != [int(Capability.CODE.ROUTE_REFRESH)]:
            raise Untranslatable(f'probe: RFC 9072 OPEN with length octet 4 decoded as {o.capabilities}')
        ext_by_type = True
    except Notify as exc:
        if exc.code != 2:
            raise Untranslatable(f'probe: RFC 9072 OPEN with length octet 4 answered {exc.code}/{exc.subcode}')
        ext_by_type = False
    return ms_parsed, auto_true, auto_collision, ext_by_type


def main(repo, gen_dir):
    import exabgp

    want = os.path.realpath(os.path.join(repo, 'src', 'exabgp'))
    got = os.path.realpath(os.path.dirname(exabgp.__file__))
    if want != got:
        raise Untranslatable(f'exabgp imported from {got}, expected {want}')

    from exabgp.bgp.message.open import Open, Version, HoldTime
    from exabgp.bgp.message.open.asn import ASN, AS_TRANS
    from exabgp.bgp.message.open.capability import capabilities as capsmod
    from exabgp.bgp.message.open.capability.capabilities import Capabilities, Parameter
    from exabgp.bgp.message.open.capability.capability import Capability, CapabilityCode
    from exabgp.bgp.message.open.capability.extended import ExtendedMessage
    from exabgp.bgp.message.open.capability.graceful import Graceful
    from exabgp.bgp.message.open.capability.hostname import HostName
    from exabgp.bgp.message.open.capability.negotiated import RequirePath
    from exabgp.bgp.message.open.capability.refresh import REFRESH
    from exabgp.bgp.message.open.capability.unknown import UnknownCapability

    lines = ['(* GENERATED by translate/t6_registry.py - do not edit *)',
             'From Coq Require Import ZArith Bool List.', 'Import ListNotations.', 'Open Scope Z_scope.']

    def const(name, value, what=None):
        lines.append(f'Definition {name} : Z := {_int(value, what or name)}.')

    codes = {}
    for name in sorted(MODELLED_DECODERS | {'RESERVED', 'OUTBOUND_ROUTE_FILTERING', 'MULTIPLE_ROUTES', 'DYNAMIC_CAPABILITY'}):
        if not hasattr(CapabilityCode, name):
            raise Untranslatable(f'CapabilityCode.{name} missing')
        codes[name] = _int(int(getattr(CapabilityCode, name)), f'CapabilityCode.{name}')
        const('CAP_' + name, codes[name])
    if len(set(codes.values())) != len(codes):
        raise Untranslatable('capability codes are not distinct')
    registered = sorted(int(k) for k in Capability.registered_capability)
    modelled = sorted(codes[n] for n in MODELLED_DECODERS)
    if registered != modelled:
        raise Untranslatable(f'registered capability decoders {registered} differ from the modelled set {modelled}')
    if Capability.unknown_capability is not UnknownCapability:
        raise Untranslatable('the fallback capability class is not UnknownCapability')
    lines.append('Definition REGISTERED_CAPS : list Z := [' + '; '.join(map(str, registered)) + '].')

    def fam_list(name, table, width):
        items = []
        for t in table:
            if len(t) != width:
                raise Untranslatable(f'{name}: entry {t!r} has not {width} fields')
            items.append('(' + ', '.join(str(_int(int(x), name)) for x in t) + ')')
        ty = 'Z * Z' if width == 2 else 'Z * Z * Z'
        lines.append(f'Definition {name} : list ({ty}) := [' + '; '.join(items) + '].')

    fam_list('ADD_PATH_TABLE', Capabilities._ADD_PATH, 2)
    fam_list('NEXTHOP_TABLE', Capabilities._NEXTHOP, 3)

    const('OPEN_PARAM_LEN_MAX', capsmod.OPEN_PARAM_LEN_MAX)
    const('OPEN_EXTENDED_MARKER', capsmod.OPEN_EXTENDED_MARKER)
    const('EXTENDED_LENGTH', Capabilities.EXTENDED_LENGTH)
    const('MIN_EXTENDED_PARAM_LEN', capsmod.MIN_EXTENDED_PARAM_LEN)
    const('MIN_PARAM_LEN', capsmod.MIN_PARAM_LEN)
    const('PARAM_AUTH', Parameter.AUTHENTIFICATION_INFORMATION)
    const('PARAM_CAPABILITIES', Parameter.CAPABILITIES)
    const('OPEN_MINIMUM_BODY_SIZE', Open.MINIMUM_BODY_SIZE)
    const('OPEN_HEADER_SIZE', Open.HEADER_SIZE)
    const('BGP_VERSION', Version.BGP_4)
    const('HOLD_MIN', HoldTime.MIN)
    const('AS_TRANS', int(AS_TRANS))
    const('ASN_MAX_2BYTE', ASN.MAX_2BYTE)
    const('ASN_SIZE_2BYTE', ASN.SIZE_2BYTE)
    const('ASN_SIZE_4BYTE', ASN.SIZE_4BYTE)
    const('MSG_INITIAL_SIZE', ExtendedMessage.INITIAL_SIZE)
    const('MSG_EXTENDED_SIZE', ExtendedMessage.EXTENDED_SIZE)
    const('REFRESH_ABSENT', REFRESH.ABSENT)
    const('REFRESH_NORMAL', REFRESH.NORMAL)
    const('REFRESH_ENHANCED', REFRESH.ENHANCED)
    const('AP_RECEIVE', RequirePath.RECEIVE)
    const('AP_SEND', RequirePath.SEND)
    const('GR_TIME_MASK', Graceful.TIME_MASK)
    const('GR_RESTART_STATE', Graceful.RESTART_STATE)
    const('GR_FORWARDING_STATE', Graceful.FORWARDING_STATE)
    const('HOSTNAME_MAX_LEN', HostName.HOSTNAME_MAX_LEN)
    if (RequirePath.RECEIVE, RequirePath.SEND) != (1, 2):
        raise Untranslatable('RequirePath bits are not RECEIVE=1, SEND=2 (the model tests these two bits)')

    local_from_cap, collision_true_as, unknown_param = _probe()
    lines.append(f'Definition LOCAL_AS_FROM_CAP : bool := {"true" if local_from_cap else "false"}.')
    lines.append(f'Definition COLLISION_ON_TRUE_AS : bool := {"true" if collision_true_as else "false"}.')
    lines.append(f'Definition UNKNOWN_PARAM_SUBCODE : Z := {unknown_param}.')
    ms_parsed, auto_true, auto_collision, ext_by_type = _probe2()
    lines.append(f'Definition MS_VALUE_PARSED : bool := {"true" if ms_parsed else "false"}.')
    lines.append(f'Definition AUTO_AS_FROM_PEER_CAP : bool := {"true" if auto_true else "false"}.')
    lines.append(f'Definition AUTO_COLLISION_CHECK : bool := {"true" if auto_collision else "false"}.')
    lines.append(f'Definition EXT_BY_TYPE_OCTET : bool := {"true" if ext_by_type else "false"}.')

    write_if_changed(os.path.join(gen_dir, 'Gen_Registry.v'), '\n'.join(lines) + '\n')
    return {'LOCAL_AS_FROM_CAP': local_from_cap, 'COLLISION_ON_TRUE_AS': collision_true_as, 'UNKNOWN_PARAM_SUBCODE': unknown_param,
            'MS_VALUE_PARSED': ms_parsed, 'AUTO_AS_FROM_PEER_CAP': auto_true, 'AUTO_COLLISION_CHECK': auto_collision, 'EXT_BY_TYPE_OCTET': ext_by_type}
