"""T11 - import-time reflection of the JSON key names of the attribute object -> coq/gen/Gen_JsonKeys.v

What is regenerated from the working tree on every run (fail closed):
  * AttributeCollection.representation   code -> (how, default, name, text presentation, json presentation)
  * AttributeCollection.INTERNAL         codes skipped by _generate_json / _generate_text
  * NO_GENERATION of every Attribute subclass that owns a code of the table (class attribute ID),
    which decides whether `_generate_json` can emit the table name for that code:
        emitted  <->  code in representation, code not in INTERNAL,
                      and (some owning class has NO_GENERATION False, or the code is NEXT_HOP
                      (include_nexthop=True path), or no class owns the code (kept: fail towards "rendered"))
  * the code points 128..255 that response/text.py `oneline` keeps verbatim (obtained by calling it on each
    one-character string; every other one must come out as ascii(character)[1:-1] (= repr(...)[1:-1] when repr escapes it), and ASCII must behave as
    the model says: 32..126 kept, the rest escaped)
Co-presence: an AttributeCollection is a dict keyed by attribute code, `_generate_json` walks sorted(keys());
any two distinct codes can be present in one decoded UPDATE (the only pair the decoder folds is
AS_PATH/AS4_PATH, and AS4_PATH has no table entry), so every pair of distinct emitted codes is co-present.
Anything outside the whitelist (unknown `how`, a name that is not [a-z0-9-]+, a presentation other than
the ones the model knows, a tuple of names) raises: the model would no longer describe the code.
"""

from __future__ import annotations

import importlib
import os
import re
import sys

from translate.py2coq import Untranslatable, write_if_changed

HOWS = {'string': 'HString', 'list': 'HList', 'integer': 'HInteger', 'boolean': 'HBoolean', 'inet': 'HInet'}
NAME = re.compile(r'[a-z0-9][a-z0-9-]*')


def _all_subclasses(cls):
    seen, todo = [], [cls]
    while todo:
        c = todo.pop()
        for s in c.__subclasses__():
            if s not in seen:
                seen.append(s)
                todo.append(s)
    return seen


def reflect(repo: str) -> dict:
    src = os.path.join(repo, 'src')
    if not os.path.isdir(os.path.join(src, 'exabgp')):
        raise Untranslatable(f'{src}/exabgp not found')
    mod = sys.modules.get('exabgp')
    if mod is not None and not os.path.abspath(mod.__file__).startswith(os.path.abspath(src) + os.sep):
        raise Untranslatable(f'exabgp already imported from {mod.__file__}, not from {src}')
    if src not in sys.path:
        sys.path.insert(0, src)
    importlib.import_module('exabgp.bgp.message.update.attribute')
    from exabgp.bgp.message.update.attribute.attribute import Attribute
    from exabgp.bgp.message.update.attribute.collection import AttributeCollection

    table = AttributeCollection.representation
    if not isinstance(table, dict) or not table:
        raise Untranslatable('AttributeCollection.representation is not a non-empty dict')
    internal = [int(c) for c in AttributeCollection.INTERNAL]
    owners = {}
    for klass in _all_subclasses(Attribute):
        ident = klass.__dict__.get('ID', None)
        if ident is None:
            for base in klass.__mro__[1:]:
                if 'ID' in base.__dict__:
                    ident = base.__dict__['ID']
                    break
        if isinstance(ident, int):
            owners.setdefault(int(ident), []).append(klass)
    rows = []
    for code, value in table.items():
        code = int(code)
        if not (isinstance(value, tuple) and len(value) == 5):
            raise Untranslatable(f'representation[{code}] is not a 5-tuple: {value!r}')
        how, default, name, text_pres, json_pres = value
        if how not in HOWS:
            raise Untranslatable(f'representation[{code}]: how={how!r} is not one the model knows')
        if not isinstance(name, str) or not NAME.fullmatch(name):
            raise Untranslatable(f'representation[{code}]: name {name!r} is not a plain [a-z0-9-]+ string')
        if json_pres != '%s':
            raise Untranslatable(f'representation[{code}]: json presentation {json_pres!r} (model knows "%s" only)')
        if text_pres not in ('%s', '( %s )'):
            raise Untranslatable(f'representation[{code}]: text presentation {text_pres!r}')
        if default != '':
            raise Untranslatable(f'representation[{code}]: default {default!r}')
        klasses = owners.get(code, [])
        nogen = [bool(getattr(k, 'NO_GENERATION')) for k in klasses]
        emitted = code not in internal and (not klasses or not all(nogen) or code == int(Attribute.CODE.NEXT_HOP))
        rows.append({'code': code, 'how': HOWS[how], 'name': name, 'emitted': emitted, 'text': text_pres,
                     'classes': sorted(k.__name__ for k in klasses)})
    rows.sort(key=lambda r: r['code'])
    from exabgp.reactor.api.response.text import oneline

    latin1 = []
    for c in range(256):
        got = oneline(chr(c))
        kept, escaped = chr(c), ascii(chr(c))[1:-1]  # = repr(...)[1:-1] for every character repr escapes
        if c < 128:
            want = kept if 32 <= c <= 126 else escaped
            if got != want:
                raise Untranslatable(f'oneline({chr(c)!r}) = {got!r}, the model says {want!r}')
        elif got == kept:
            latin1.append(c)
        elif got != escaped:
            raise Untranslatable(f'oneline({chr(c)!r}) = {got!r}: neither kept nor repr-escaped')
    return {'rows': rows, 'internal': sorted(internal), 'latin1': latin1}


def zl(xs):
    return '[' + ';'.join(str(int(x)) for x in xs) + ']'


def generate(repo: str) -> str:
    r = reflect(repo)
    out = []
    out.append('(* GENERATED by translate/t11_jsonkeys.py from the imported exabgp package - do not edit. *)')
    out.append('From Coq Require Import ZArith List Bool.')
    out.append('Import ListNotations.')
    out.append('Open Scope Z_scope.')
    out.append('')
    out.append('Inductive attr_how := HString | HList | HInteger | HBoolean | HInet.')
    out.append('')
    out.append('(* AttributeCollection.representation: (code, how, JSON key name as code points, emitted by _generate_json) *)')
    out.append('Definition attr_key_table : list (Z * attr_how * list Z * bool) :=')
    body = []
    for row in r['rows']:
        body.append(f'({row["code"]}, {row["how"]}, {zl(row["name"].encode("ascii"))}, {"true" if row["emitted"] else "false"})'
                    f'  (* "{row["name"]}"  {",".join(row["classes"][:3]) or "no class"}{" ..." if len(row["classes"]) > 3 else ""} *)')
    out.append('  [' + ';\n   '.join(body) + '\n  ].')
    out.append('')
    out.append('(* AttributeCollection.INTERNAL *)')
    out.append(f'Definition attr_internal : list Z := {zl(r["internal"])}.')
    out.append('')
    out.append('(* code points 128..255 kept verbatim by response/text.py oneline (printable and not escaped) *)')
    out.append(f'Definition oneline_kept_latin1 : list Z := {zl(r["latin1"])}.')
    out.append('')
    return '\n'.join(out)


def main(repo: str, gen_dir: str) -> None:
    write_if_changed(os.path.join(gen_dir, 'Gen_JsonKeys.v'), generate(repo))


if __name__ == '__main__':
    main(sys.argv[1] if len(sys.argv) > 1 else '/repo', sys.argv[2] if len(sys.argv) > 2 else '/verif/coq/gen')
