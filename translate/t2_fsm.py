"""T2 - bgp/fsm.py (FSM.STATE, FSM.transition) -> coq/gen/Gen_Fsm.v, plus fail-closed shape checks of the
control skeleton of reactor/peer/peer.py and reactor/protocol.py that the hand model Model_Session mirrors.

Generated:
  IDLE ACTIVE CONNECT OPENSENT OPENCONFIRM ESTABLISHED : Z      (FSM.STATE members, by name)
  states : list Z
  allowed (a b : Z) : bool       a -> b is listed in FSM.transition[b]  (the table is `to: [from, ...]`)
  msg_size_after_both_opens : bool    where _establish copies negotiated.msg_size to the connection (two known places)
  openwait_notify / establish_timer_notify / main_teardown_notify / process_up_notify : Z * Z
                                 the (code, subcode) literals of the Notify raised at those places

Checked, not translated (anything else raises Untranslatable; Model_Session.v documents the same reading):
  * FSM.change: assigns self.state, calls processes.fsm under the api['fsm'] test, no transition check;
  * Peer._establish: the ORDER of  fsm.change(ACTIVE) / passive wait / fsm.change(IDLE) / `if not self.proto:
    await self._connect()` / fsm.change(CONNECT) / [local_as] _send_open, negotiated.sent, fsm.change(OPENSENT) /
    _read_open, negotiated.received / (connection.msg_size := negotiated.msg_size HERE or after the next block) /
    [not local_as] _send_open .. fsm.change(OPENSENT) / proto.validate_open() /
    fsm.change(OPENCONFIRM) / recv_timer = ReceiveTimer(..) / _send_ka / _read_ka / fsm.change(ESTABLISHED);
  * Peer._send_open/_read_open/_send_ka/_read_ka call proto.new_open/read_open/new_keepalive/read_keepalive;
    _read_ka waits with `asyncio.wait_for(.., timeout=holdtime or None)` and raises a literal Notify on timeout;
  * Peer._connect: proto.connect(); failure -> `if self.proto: self._close(..)` then raise Interrupted;
    success -> self.proto = proto;
  * Peer._run: try [_establish, _main]; handlers in this order and with these calls:
      NetworkError -> _reset;  Notify -> (if self.proto: new_notification (errors swallowed); _reset) else _reset;
      Notification -> _reset (no new_notification);  ProcessError -> _reset;  Interrupted -> _reset;  Exception -> _reset;
  * Peer._close: processes.down under `fsm not in (IDLE, ACTIVE)`, then fsm.change(IDLE) (each possibly inside
    `try .. except ProcessError: log`), then `if self.proto:
    .. self.proto.close(..)`, then self.proto = None;   Peer._reset: _close first, terminate when not _restart;
  * Peer.stop: fsm.change(IDLE); Peer.remove/shutdown: _stop then stop; Peer._stop: `if self.proto: self._close`;
  * Peer.handle_connection: ESTABLISHED -> return connection.notification(6, 7, ..); OPENCONFIRM compares
    router ids; then `if self.proto: self._close(..)`; `self.proto = Protocol(self).accept(connection)`;
    `self.fsm_runner.clear()`; `self._abandon_run()` (the attempt in progress - a task created by run() as
    `self._run_task = asyncio.ensure_future(self._run())` - is cancelled, run() swallows exactly that
    CancelledError and starts over);
  * Peer._read_message_or_nop keeps the read task across its 100 ms waits; Peer._cancel_read forgets it and is
    called only in the finally around the loop of _main; the loop starts with the reload hand-over (`if self._neighbor:`
    replace_reload ..) and ends with `_has_pending_work` -> sleep(0) / sleep(0.001) + `if self._teardown: break`;
  * Peer._main: starts with `if self._teardown: raise Notify(6, 3)`; processes.up before the loop;
    the loop is `while not self._teardown`; ends with `raise Notify(6, self._teardown)`;
  * Protocol.accept/connect report `connected`; read_open/read_keepalive raise Notify(5,1)/(5,2) on another type;
    read_message raises a received NOTIFICATION (`raise cast(Notification, message)`).
"""

from __future__ import annotations

import ast
import os
import sys

from translate.py2coq import Untranslatable, dotted, find_function, write_if_changed

FSM = 'src/exabgp/bgp/fsm.py'
PEER = 'src/exabgp/reactor/peer/peer.py'
PROTO = 'src/exabgp/reactor/protocol.py'

NAMES = ['IDLE', 'ACTIVE', 'CONNECT', 'OPENSENT', 'OPENCONFIRM', 'ESTABLISHED']


def parse(repo, rel):
    with open(os.path.join(repo, rel)) as f:
        return ast.parse(f.read())


def u(node):
    return ast.unparse(node).strip()


def fail(rel, what):
    raise Untranslatable(f'{rel}: {what}')


def no_doc(body):
    return [s for s in body if not (isinstance(s, ast.Expr) and isinstance(s.value, ast.Constant) and isinstance(s.value.value, str))]


def is_log(s):
    return isinstance(s, ast.Expr) and isinstance(s.value, ast.Call) and (dotted(s.value.func) or '').startswith('log.')


def significant(body):
    """statements without docstrings, asserts and logging calls"""
    return [s for s in no_doc(body) if not isinstance(s, ast.Assert) and not is_log(s)]


# --------------------------------------------------------------------------------- fsm.py


def fsm_table(tree):
    cls = None
    for node in ast.walk(tree):
        if isinstance(node, ast.ClassDef) and node.name == 'FSM':
            cls = node
    if cls is None:
        fail(FSM, 'class FSM not found')
    state = [s for s in cls.body if isinstance(s, ast.ClassDef) and s.name == 'STATE']
    if len(state) != 1 or [u(b) for b in state[0].bases] != ['IntEnum']:
        fail(FSM, 'FSM.STATE(IntEnum) not found')
    codes = {}
    for s in no_doc(state[0].body):
        if not (isinstance(s, ast.Assign) and len(s.targets) == 1 and isinstance(s.targets[0], ast.Name)
                and isinstance(s.value, ast.Constant) and isinstance(s.value.value, int)):
            fail(FSM, f'unexpected member of STATE: {u(s)}')
        codes[s.targets[0].id] = s.value.value
    if sorted(codes) != sorted(NAMES) or len(set(codes.values())) != 6:
        fail(FSM, f'STATE members are {sorted(codes)}')
    # the aliases IDLE: STATE = STATE.IDLE ...
    for name in NAMES:
        ok = [s for s in cls.body if isinstance(s, ast.AnnAssign) and isinstance(s.target, ast.Name) and s.target.id == name]
        if len(ok) != 1 or u(ok[0].value) != f'STATE.{name}':
            fail(FSM, f'FSM.{name} is not the alias of STATE.{name}')
    tr = [s for s in cls.body if isinstance(s, ast.AnnAssign) and isinstance(s.target, ast.Name) and s.target.id == 'transition']
    if len(tr) != 1 or not isinstance(tr[0].value, ast.Dict):
        fail(FSM, 'FSM.transition dictionary not found')
    table = {}
    for k, v in zip(tr[0].value.keys, tr[0].value.values):
        if not (isinstance(k, ast.Name) and k.id in codes and isinstance(v, ast.List)):
            fail(FSM, f'transition entry not `NAME: [NAME, ...]`: {u(k)}')
        srcs = []
        for e in v.elts:
            if not (isinstance(e, ast.Name) and e.id in codes):
                fail(FSM, f'transition source not a state name: {u(e)}')
            srcs.append(e.id)
        if k.id in table:
            fail(FSM, f'transition has two entries for {k.id}')
        table[k.id] = srcs
    if sorted(table) != sorted(NAMES):
        fail(FSM, f'transition destinations are {sorted(table)}')
    # change(): no enforcement, state assigned, api event
    ch = find_function(tree, ['FSM', 'change'])
    body = significant(ch.body)
    want = [
        'self.state = state',
        "if self.peer.neighbor.api and self.peer.neighbor.api['fsm']:\n    self.peer.reactor.processes.fsm(self.peer.neighbor, self)",
        'return self',
    ]
    if [u(s) for s in body] != want:
        fail(FSM, f'FSM.change is not assign / api fsm event / return self: {[u(s) for s in body]}')
    return codes, table


# --------------------------------------------------------------------------------- peer.py


def tokens(stmts, out, cond=''):
    """flatten a statement list into the significant calls, in source order"""
    for s in stmts:
        if isinstance(s, ast.Assert) or is_log(s):
            continue
        if isinstance(s, ast.If):
            tokens(s.body, out, cond + '[' + u(s.test) + ']')
            if s.orelse:
                tokens(s.orelse, out, cond + '[not ' + u(s.test) + ']')
            continue
        if isinstance(s, ast.While):
            out.append(cond + 'while ' + u(s.test) + ': ' + '; '.join(u(x) for x in s.body))
            continue
        if isinstance(s, (ast.AsyncWith, ast.With)):
            tokens(s.body, out, cond)
            continue
        if isinstance(s, ast.Try) and not s.finalbody and not s.orelse and all(
            dotted(h.type) == 'ProcessError' and all(is_log(x) for x in h.body) for h in s.handlers
        ):
            # `try: <calls> except ProcessError: log...`: the calls, protected against a failing API helper
            tokens(s.body, out, cond + '[api-safe]')
            continue
        out.append(cond + u(s))
    return out


MSG_SIZE = 'self.proto.connection.msg_size = self.proto.negotiated.msg_size'

ESTABLISH = [
    'self.fsm.change(FSM.ACTIVE)',
    '[getenv().bgp.passive]while not self.proto: await asyncio.sleep(0)',
    'self.fsm.change(FSM.IDLE)',
    '[not self.proto]await self._connect()',
    'self.fsm.change(FSM.CONNECT)',
    '[self.neighbor.session.local_as]sent_open = await self._send_open()',
    '[self.neighbor.session.local_as]self.proto.negotiated.sent(sent_open)',
    '[self.neighbor.session.local_as]self.proto.negotiated.sent(sent_open)',
    '[self.neighbor.session.local_as]self.fsm.change(FSM.OPENSENT)',
    'received_open = await self._read_open()',
    'self.proto.negotiated.received(received_open)',
    'self.proto.negotiated.received(received_open)',
    MSG_SIZE,  # position A: right after the peer's OPEN (our OPEN may not be sent yet when local-as is mirrored)
    '[not self.neighbor.session.local_as]sent_open = await self._send_open()',
    '[not self.neighbor.session.local_as]self.proto.negotiated.sent(sent_open)',
    '[not self.neighbor.session.local_as]self.proto.negotiated.sent(sent_open)',
    '[not self.neighbor.session.local_as]self.fsm.change(FSM.OPENSENT)',
    MSG_SIZE,  # position B: after both OPENs are known
    'self.proto.validate_open()',
    'self.fsm.change(FSM.OPENCONFIRM)',
    None,  # self.recv_timer = ReceiveTimer(...)
    'await self._send_ka()',
    'await self._read_ka()',
    'self.fsm.change(FSM.ESTABLISHED)',
    "self.stats['complete'] = time.time()",
]


def notify_literal(node, where):
    if not (isinstance(node, ast.Raise) and isinstance(node.exc, ast.Call) and dotted(node.exc.func) == 'Notify' and len(node.exc.args) >= 2):
        fail(PEER, f'{where}: not `raise Notify(code, subcode, ..)`: {u(node)}')
    a, b = node.exc.args[0], node.exc.args[1]
    if not all(isinstance(x, ast.Constant) and isinstance(x.value, int) for x in (a, b)):
        fail(PEER, f'{where}: Notify code/subcode are not literals: {u(node)}')
    return a.value, b.value


def check_establish(tree):
    f = find_function(tree, ['Peer', '_establish'])
    got = tokens(no_doc(f.body), [])
    # the connection's message size is taken from the negotiation at exactly ONE of the two known places
    slots = [i for i, w in enumerate(ESTABLISH) if w == MSG_SIZE]
    if got.count(MSG_SIZE) != 1 or len(got) != len(ESTABLISH) - 1:
        fail(PEER, f'_establish has {len(got)} significant statements ({got.count(MSG_SIZE)} msg_size assignments), the model knows {len(ESTABLISH) - 1} with one: {got}')
    after_both = None
    for cand, drop in ((False, slots[1]), (True, slots[0])):
        want = [w for i, w in enumerate(ESTABLISH) if i != drop]
        if all(w is None or g == w for g, w in zip(got, want)):
            after_both = cand
            expected = want
    if after_both is None:
        first = next((f'expected `{w}`, found `{g}`' for g, w in zip(got, [w for i, w in enumerate(ESTABLISH) if i != slots[1]]) if w is not None and g != w), '')
        fail(PEER, f'_establish: order of calls changed ({first}); the msg_size assignment is at neither known place')
    timer = None
    for g, w in zip(got, expected):
        if w is None:
            if not g.startswith('self.recv_timer = ReceiveTimer('):
                fail(PEER, f'_establish: expected the ReceiveTimer creation, found {g}')
            timer = g
        elif g != w:
            fail(PEER, f'_establish: expected `{w}`, found `{g}`')
    # the literal (code, subcode) of the hold timer
    call = ast.parse(timer).body[0].value
    if len(call.args) != 4 or not all(isinstance(x, ast.Constant) for x in call.args[2:]):
        fail(PEER, f'ReceiveTimer(..) arguments changed: {timer}')
    est_timer = (call.args[2].value, call.args[3].value)

    def single_call(name, text):
        fn = find_function(tree, ['Peer', name])
        src = [u(s) for s in significant(fn.body)]
        if not any(text in s for s in src):
            fail(PEER, f'{name} does not call {text}: {src}')
        return fn

    single_call('_send_open', 'await self.proto.new_open()')
    ro = single_call('_read_open', 'self.proto.read_open(')
    single_call('_send_ka', 'await self.proto.new_keepalive(')
    rk = single_call('_read_ka', 'message = await asyncio.wait_for(self.proto.read_keepalive(), timeout=holdtime or None)')
    rk_body = [x for x in significant(rk.body)]
    if not (len(rk_body) == 3 and u(rk_body[0]) == 'holdtime = int(self.proto.negotiated.holdtime)' and isinstance(rk_body[1], ast.Try)
            and len(rk_body[1].handlers) == 1 and dotted(rk_body[1].handlers[0].type) == 'asyncio.TimeoutError'
            and u(rk_body[2]) == 'self.recv_timer.check_ka_timer(message)'):
        fail(PEER, f'_read_ka changed: {[u(x) for x in rk_body]}')
    readka = notify_literal(rk_body[1].handlers[0].body[-1], '_read_ka timeout')
    # _read_open: Notify literal on timeout
    tries = [s for s in ro.body if isinstance(s, ast.Try)]
    if len(tries) != 1 or len(tries[0].handlers) != 1 or dotted(tries[0].handlers[0].type) != 'asyncio.TimeoutError':
        fail(PEER, '_read_open: one try with one asyncio.TimeoutError handler expected')
    if 'asyncio.wait_for(self.proto.read_open(' not in u(tries[0].body[0]) or 'timeout=wait' not in u(tries[0].body[0]):
        fail(PEER, '_read_open does not wait_for(read_open, timeout=wait)')
    openwait = notify_literal(tries[0].handlers[0].body[-1], '_read_open timeout')
    return est_timer, openwait, readka, after_both


def check_connect(tree):
    f = find_function(tree, ['Peer', '_connect'])
    got = tokens(significant(f.body), [])
    want_prefix = ['self.connection_attempts += 1', 'proto = Protocol(self)']
    if got[:2] != want_prefix:
        fail(PEER, f'_connect starts with {got[:2]}')
    tries = [s for s in f.body if isinstance(s, ast.Try)]
    if len(tries) != 1:
        fail(PEER, '_connect: one try block expected')
    body = tokens(tries[0].body, [])
    close_msg = 'self._close(f'
    want = ['connected = await proto.connect()', None, "[not connected]raise Interrupted('connection failed')", 'self.proto = proto']
    if len(body) != 4 or body[0] != want[0] or body[2] != want[2] or body[3] != want[3]:
        fail(PEER, f'_connect body changed: {body}')
    if not body[1].startswith('[not connected][self.proto]' + close_msg):
        fail(PEER, f'_connect: on failure `if self.proto: self._close(..)` expected, found {body[1]}')
    hs = [dotted(h.type) for h in tries[0].handlers]
    if hs != ['Stop', 'asyncio.CancelledError']:
        fail(PEER, f'_connect handlers are {hs}')
    ch = tries[0].handlers[1]
    if [u(x) for x in significant(ch.body)] != ['if proto.connection:\n    proto.connection.close()', 'raise']:
        fail(PEER, f'_connect: the CancelledError handler does something else than closing the half-open socket and re-raising')


def handler_sig(h):
    calls = []
    for node in sorted((n for n in ast.walk(h) if isinstance(n, ast.Call)), key=lambda n: (n.lineno, n.col_offset)):
        if isinstance(node, ast.Call):
            d = dotted(node.func)
            if d in ('self.proto.new_notification', 'self._reset', 'self._close', 'self.stop', 'self.can_reconnect'):
                calls.append(d.split('.')[-1] + ('()' if d == 'self._reset' and not node.args else ''))
    return calls


def check_run(tree):
    f = find_function(tree, ['Peer', '_run'])
    body = no_doc(f.body)
    if len(body) != 1 or not isinstance(body[0], ast.Try):
        fail(PEER, '_run is not a single try statement')
    t = body[0]
    if [u(s) for s in t.body] != ['await self._establish()', 'await self._main()'] or t.orelse or t.finalbody:
        fail(PEER, f'_run try body changed: {[u(s) for s in t.body]}')
    got = [(dotted(h.type), handler_sig(h)) for h in t.handlers]
    want = [
        ('NetworkError', ['can_reconnect', 'stop', '_reset']),
        ('Notify', ['new_notification', '_reset', '_reset()', 'can_reconnect', 'stop']),
        ('Notification', ['can_reconnect', 'stop', '_reset']),
        ('ProcessError', ['_reset']),
        ('Interrupted', ['_reset']),
        ('Exception', ['_reset()']),
    ]
    if got != want:
        fail(PEER, f'_run handlers changed: {got}')
    # Notify handler: `if self.proto: try: await new_notification except (NetworkError, ProcessError) ..; _reset(..) else: _reset()`
    h = t.handlers[1]
    first = significant(h.body)[0]
    if not (isinstance(first, ast.If) and u(first.test) == 'self.proto'):
        fail(PEER, '_run Notify handler does not start with `if self.proto:`')
    inner = significant(first.body)
    if not (len(inner) == 2 and isinstance(inner[0], ast.Try) and u(inner[0].body[0]) == 'await self.proto.new_notification(notify)'
            and u(inner[0].handlers[0].type) == '(NetworkError, ProcessError)' and u(inner[1]).startswith('self._reset(f')):
        fail(PEER, f'_run Notify handler body changed: {[u(s) for s in inner]}')
    if [u(s) for s in significant(first.orelse)] != ['self._reset()']:
        fail(PEER, '_run Notify handler: else branch is not self._reset()')
    for h in t.handlers:
        last = significant(h.body)[-1]
        if u(last) != 'return':
            fail(PEER, f'_run handler {dotted(h.type)} does not end with return')


def check_close_reset_stop(tree):
    f = find_function(tree, ['Peer', '_close'])
    toks = tokens(significant(f.body), [])
    # order: down (guarded) -> fsm.change(IDLE) -> stats -> proto.close -> delay -> proto = None
    idx = {}
    for i, t in enumerate(toks):
        if 'self.reactor.processes.down(self.neighbor, message)' in t:
            idx['down'] = i
        elif t in ('self.fsm.change(FSM.IDLE)', '[api-safe]self.fsm.change(FSM.IDLE)'):
            idx['fsm'] = i
        elif t.endswith('self.proto.close(message)'):
            if not t.startswith('[self.proto]'):
                fail(PEER, '_close: proto.close is not under `if self.proto`')
            idx['pclose'] = i
        elif t == 'self.proto = None':
            idx['none'] = i
    if sorted(idx) != ['down', 'fsm', 'none', 'pclose'] or not idx['down'] < idx['fsm'] < idx['pclose'] < idx['none']:
        fail(PEER, f'_close order changed: {toks}')
    first = significant(f.body)[0]
    if not (isinstance(first, ast.If) and u(first.test) == 'self.fsm not in (FSM.IDLE, FSM.ACTIVE)'):
        fail(PEER, '_close: the down event is not guarded by `self.fsm not in (FSM.IDLE, FSM.ACTIVE)`')
    if "self.neighbor.api['neighbor-changes']" not in u(first):
        fail(PEER, '_close: the down event is not guarded by neighbor-changes')
    f = find_function(tree, ['Peer', '_reset'])
    toks = tokens(significant(f.body), [])
    want = [
        'self._close(message, error)',
        '[not self._restart or self.neighbor.ephemeral]self.fsm_runner.terminate()',
        '[not self._restart or self.neighbor.ephemeral]return',
        'self.fsm_runner.clear()',
        'self._teardown = None',
        'self.neighbor.reset_rib()',
    ]
    if toks[: len(want)] != want:
        fail(PEER, f'_reset changed: {toks}')
    f = find_function(tree, ['Peer', '_stop'])
    if tokens(significant(f.body), []) != ['self.fsm_runner.clear()', "[self.proto]self._close(f'stop, message [{message}]')"]:
        fail(PEER, f'_stop changed: {tokens(significant(f.body), [])}')
    f = find_function(tree, ['Peer', 'stop'])
    toks = tokens(significant(f.body), [])
    if toks[:5] != ['self._teardown = 3', 'self._restart = False', 'self._restarted = False', 'self._delay.reset()', 'self.fsm.change(FSM.IDLE)']:
        fail(PEER, f'stop changed: {toks[:5]}')
    for name, msg_ in (('remove', 'removed'), ('shutdown', 'shutting down')):
        f = find_function(tree, ['Peer', name])
        if [u(s) for s in significant(f.body)] != [f"self._stop('{msg_}')", 'self.stop()']:
            fail(PEER, f'{name} changed')
    f = find_function(tree, ['Peer', 'teardown'])
    if [u(s) for s in significant(f.body)] != ['self._restart = restart', 'self._teardown = code', 'self._delay.reset()']:
        fail(PEER, 'teardown changed')
    f = find_function(tree, ['Peer', 'reestablish'])
    if [u(s) for s in significant(f.body)][:2] != ['self._teardown = 3', 'self._restart = True']:
        fail(PEER, 'reestablish changed')


def check_handle_connection(tree):
    f = find_function(tree, ['Peer', 'handle_connection'])
    body = significant(f.body)
    if len(body) != 8:
        fail(PEER, f'handle_connection has {len(body)} significant statements: {[u(s)[:60] for s in body]}')
    est, oc, acc, assign, clear, abandon, delay, ret = body
    if u(abandon) != 'self._abandon_run()':
        fail(PEER, f'handle_connection does not abandon the attempt in progress after accepting: {u(abandon)}')
    ab = find_function(tree, ['Peer', '_abandon_run'])
    if [u(x) for x in significant(ab.body)] != ['task = self._run_task', 'if task is not None and (not task.done()):\n    self._run_abandoned = True\n    task.cancel()']:
        fail(PEER, f'_abandon_run changed: {[u(x) for x in significant(ab.body)]}')
    rn = find_function(tree, ['Peer', 'run'])
    src = u(rn)
    for needle in ('self._run_abandoned = False', 'self._run_task = asyncio.ensure_future(self._run())', 'await self._run_task',
                   'except asyncio.CancelledError:', 'if not self._run_abandoned or (cancelling is not None and cancelling()):\n                    raise',
                   'self._run_task = None', 'if not self._restart:\n                break'):
        if needle not in src:
            fail(PEER, f'run() lost `{needle}`')
    if not (isinstance(est, ast.If) and u(est.test) == 'self.fsm == FSM.ESTABLISHED'
            and u(significant(est.body)[-1]).startswith('return connection.notification(6, 7,')):
        fail(PEER, 'handle_connection: ESTABLISHED is not refused with notification(6, 7)')
    if not (isinstance(oc, ast.If) and u(oc.test) == 'self.fsm == FSM.OPENCONFIRM'):
        fail(PEER, 'handle_connection: OPENCONFIRM branch missing')
    inner = [s for s in significant(oc.body) if isinstance(s, ast.If)]
    if len(inner) != 1 or u(inner[0].test) != 'bytes(remote_id) < bytes(local_id)' or not u(significant(inner[0].body)[-1]).startswith(
        'return connection.notification(6, 7,'
    ):
        fail(PEER, 'handle_connection: OPENCONFIRM does not refuse when remote id < local id')
    if not (isinstance(acc, ast.If) and u(acc.test) == 'self.proto' and u(significant(acc.body)[-1]).startswith('self._close(')):
        fail(PEER, 'handle_connection: `if self.proto: self._close(..)` missing')
    if u(assign) != 'self.proto = Protocol(self).accept(connection)' or u(clear) != 'self.fsm_runner.clear()':
        fail(PEER, f'handle_connection: accept changed: {u(assign)} / {u(clear)}')
    if u(delay) != 'self._delay.reset()' or u(ret) != 'return None':
        fail(PEER, f'handle_connection: tail changed: {u(delay)} / {u(ret)}')


def check_main(tree):
    f = find_function(tree, ['Peer', '_main'])
    body = significant(f.body)
    if not (isinstance(body[0], ast.If) and u(body[0].test) == 'self._teardown'):
        fail(PEER, '_main does not start with `if self._teardown:`')
    early = notify_literal(body[0].body[0], '_main early teardown')
    loops = [n for n in ast.walk(f) if isinstance(n, ast.While)]
    if len(loops) != 1 or u(loops[0].test) != 'not self._teardown':
        fail(PEER, '_main: the loop is not `while not self._teardown`')
    ups = [n for n in ast.walk(f) if isinstance(n, ast.Call) and dotted(n.func) == 'self.reactor.processes.up']
    if len(ups) != 1 or ups[0].lineno >= loops[0].lineno:
        fail(PEER, '_main: processes.up is not called exactly once before the loop')
    up_try = [n for n in ast.walk(f) if isinstance(n, ast.Try) and any(u(s) == 'self.reactor.processes.up(self.neighbor)' for s in n.body)]
    if len(up_try) != 1 or dotted(up_try[0].handlers[0].type) != 'ProcessError':
        fail(PEER, '_main: processes.up is not guarded by ProcessError')
    up_notify = notify_literal(up_try[0].handlers[0].body[-1], '_main processes.up failure')
    if u(body[-1]) != 'raise Notify(6, self._teardown)':
        fail(PEER, f'_main does not end with raise Notify(6, self._teardown): {u(body[-1])}')
    if not any(u(s) == 'message = await self._read_message_or_nop()' for s in loops[0].body):
        fail(PEER, '_main loop does not read through _read_message_or_nop')
    order = [u(s) for s in loops[0].body if u(s).startswith('await self._send_') or 'await self._send_' in u(s)]
    want = ['await self._send_operational_messages()', 'await self._send_refresh_messages()']
    if order[:2] != want or '_send_route_updates' not in order[2] or '_send_eor_messages' not in order[3]:
        fail(PEER, f'_main send order changed: {order}')
    # the read in progress: kept across the 100 ms waits, given up only when the loop is left
    cr = find_function(tree, ['Peer', '_cancel_read'])
    want = ["task = getattr(self, '_read_task', None)", 'self._read_task = None', 'if task is not None and (not task.done()):\n    task.cancel()']
    if [u(x) for x in significant(cr.body)] != want:
        fail(PEER, f'_cancel_read changed: {[u(x) for x in significant(cr.body)]}')
    rm = find_function(tree, ['Peer', '_read_message_or_nop'])
    want = [
        "task = getattr(self, '_read_task', None)",
        'if task is None:\n    task = asyncio.ensure_future(self.proto.read_message())\n    self._read_task = task',
        'done, _ = await asyncio.wait({task}, timeout=0.1)',
        'if not done:\n    return _NOP',
        'self._read_task = None',
        'return task.result()',
    ]
    if [u(x) for x in significant(rm.body)] != want:
        fail(PEER, f'_read_message_or_nop changed: {[u(x) for x in significant(rm.body)]}')
    uses = [n for n in ast.walk(f) if isinstance(n, ast.Call) and dotted(n.func) == 'self._cancel_read']
    tries = [n for n in ast.walk(f) if isinstance(n, ast.Try) and n.finalbody and any(u(x) == 'self._cancel_read()' for x in n.finalbody)]
    if len(uses) != 1 or len(tries) != 1 or loops[0] not in list(ast.walk(tries[0])):
        fail(PEER, '_main: _cancel_read must be called exactly once, in the finally of the try around the loop')
    rel = [x for x in loops[0].body if isinstance(x, ast.If) and u(x.test) == 'self._neighbor']
    want = [
        'previous = self._neighbor.previous.routes if self._neighbor.previous else []', 'current = self._neighbor.routes',
        'self.neighbor.rib.outgoing.replace_reload(previous, current)', 'self._neighbor.previous = None', 'self._neighbor = None',
    ]
    if len(rel) != 1 or [u(x) for x in significant(rel[0].body)] != want or loops[0].body.index(rel[0]) > 1:
        fail(PEER, f'_main: the reload hand-over at the top of the loop changed: {[u(x) for x in significant(rel[0].body)] if rel else None}')
    tail = [u(x) for x in loops[0].body if isinstance(x, ast.If) and 'self._has_pending_work(' in u(x.test)]
    if len(tail) != 1 or 'await asyncio.sleep(0.001)\n    if self._teardown:' not in tail[0]:
        fail(PEER, f'_main: the end of an iteration is not `sleep(0) / sleep(0.001) + teardown test`: {tail}')
    return early, up_notify


def check_protocol(tree):
    f = find_function(tree, ['Protocol', 'accept'])
    if "self.peer.reactor.processes.connected(self.peer.neighbor)" not in u(f):
        fail(PROTO, 'accept does not report connected')
    f = find_function(tree, ['Protocol', 'connect'])
    if "self.peer.reactor.processes.connected(self.peer.neighbor)" not in u(f) or 'await self.connection.establish_async()' not in u(f):
        fail(PROTO, 'connect changed')
    f = find_function(tree, ['Protocol', 'read_open'])
    ifs = [s for s in f.body if isinstance(s, ast.If) and u(s.test) == 'received_open.TYPE != Open.TYPE']
    if len(ifs) != 1:
        fail(PROTO, 'read_open does not test received_open.TYPE != Open.TYPE')
    ro = notify_literal(ifs[0].body[0], 'read_open')
    f = find_function(tree, ['Protocol', 'read_keepalive'])
    ifs = [s for s in f.body if isinstance(s, ast.If) and u(s.test) == 'message.TYPE != KeepAlive.TYPE']
    if len(ifs) != 1:
        fail(PROTO, 'read_keepalive does not test message.TYPE != KeepAlive.TYPE')
    rk = notify_literal(ifs[0].body[0], 'read_keepalive')
    f = find_function(tree, ['Protocol', 'read_message'])
    src = u(f)
    if 'if message.TYPE == Notification.TYPE:\n        raise cast(Notification, message)' not in src:
        fail(PROTO, 'read_message does not raise a received NOTIFICATION')
    f = find_function(tree, ['Protocol', 'close'])
    if 'self.connection.close()' not in u(f):
        fail(PROTO, 'close changed')
    return ro, rk


# --------------------------------------------------------------------------------- generation


def generate(repo: str) -> str:
    codes, table = fsm_table(parse(repo, FSM))
    peer = parse(repo, PEER)
    est_timer, openwait, readka, msg_after_both = check_establish(peer)
    check_connect(peer)
    check_run(peer)
    check_close_reset_stop(peer)
    check_handle_connection(peer)
    early, up_notify = check_main(peer)
    ro, rk = check_protocol(parse(repo, PROTO))

    out = [f'(* GENERATED by translate/t2_fsm.py from {FSM}, {PEER}, {PROTO} - do not edit *)']
    out.append('From Coq Require Import ZArith Bool List.')
    out.append('Import ListNotations.')
    out.append('Open Scope Z_scope.')
    for n in NAMES:
        out.append(f'Definition {n} : Z := {codes[n]}.')
    out.append('Definition states : list Z := [' + '; '.join(NAMES) + '].')
    out.append('(* FSM.transition is `destination: [sources]`; allowed a b: a is a listed source of b *)')
    out.append('Definition allowed (a b : Z) : bool :=')
    for n in NAMES:
        srcs = ' || '.join(f'(a =? {s})' for s in table[n]) or 'false'
        out.append(f'  if b =? {n} then ({srcs}) else')
    out.append('  false.')

    def pair(name, p):
        out.append(f'Definition {name} : Z * Z := ({p[0]}, {p[1]}).')

    out.append('(* where Peer._establish copies negotiated.msg_size to the connection: true = after both OPENs are known,')
    out.append('   false = right after the peer OPEN is read (before our OPEN is sent when the local AS is mirrored) *)')
    out.append(f'Definition msg_size_after_both_opens : bool := {"true" if msg_after_both else "false"}.')
    pair('openwait_notify', openwait)
    pair('establish_timer_notify', est_timer)
    pair('read_ka_timeout_notify', readka)
    pair('main_teardown_notify', early)
    pair('process_up_notify', up_notify)
    pair('read_open_other_notify', ro)
    pair('read_keepalive_other_notify', rk)
    return '\n'.join(out) + '\n'


def main(repo: str, gen_dir: str) -> None:
    write_if_changed(os.path.join(gen_dir, 'Gen_Fsm.v'), generate(repo))


if __name__ == '__main__':
    main(sys.argv[1], sys.argv[2])
