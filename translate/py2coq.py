"""py2coq - fail-closed translator of a small, pure subset of Python to Gallina.

Everything scalar is a Coq ``Z``; Python booleans are Coq ``bool``.  A function body is a
sequence of statements over *mutable locals*; it is translated to nested ``let``s, an ``if``
whose branches assign locals becomes ``let '(a, b) := if c then ... else ... in``.
An ``if`` branch ending in ``return``/``raise`` turns the rest of the block into the ``else``.

Anything not explicitly whitelisted raises ``Untranslatable`` - the caller reports a broken
obligation (the tie to the source is lost), never a silently wrong model.

The per-source configuration (``Env``) supplies:
  names      : python dotted name        -> Coq term           (e.g. 'options.rise' -> '(rise o)')
  calls      : python dotted callee name -> fn(translator, call_node) -> Coq term (expression calls)
  effects    : python dotted callee name -> fn(translator, call_node) -> list of (var, coqterm)
               (statement-level calls; [] means "pure logging, ignore")
  raise_term : fn(translator, raise_node) -> Coq term for the whole function result
  ret        : fn(translator, coq_value_terms:list[str]) -> Coq term for `return a, b`
  skip_stmt  : fn(node) -> bool   statement shapes that are explicitly out of the model
"""

from __future__ import annotations

import ast


class Untranslatable(Exception):
    pass


def dotted(node: ast.AST) -> str | None:
    if isinstance(node, ast.Name):
        return node.id
    if isinstance(node, ast.Attribute):
        base = dotted(node.value)
        if base is None:
            return None
        return base + '.' + node.attr
    return None


class Env:
    def __init__(self, names=None, calls=None, effects=None, raise_term=None, ret=None, skip_stmt=None, bools=None):
        self.names = dict(names or {})
        self.calls = dict(calls or {})
        self.effects = dict(effects or {})
        self.raise_term = raise_term
        self.ret = ret or (lambda tr, vals: '(' + ', '.join(vals) + ')' if len(vals) != 1 else vals[0])
        self.skip_stmt = skip_stmt or (lambda node: False)
        # python names / dotted names known to hold booleans (so `not x`, `if x` need no `<>? 0`)
        self.bools = set(bools or [])


class Tr:
    def __init__(self, env: Env, src_name: str = '?'):
        self.env = env
        self.src_name = src_name
        self.locals_bool: set[str] = set()

    def fail(self, node: ast.AST, why: str):
        line = getattr(node, 'lineno', '?')
        try:
            text = ast.unparse(node)
        except Exception:
            text = repr(node)
        raise Untranslatable(f'{self.src_name}:{line}: {why}: {text[:120]}')

    # ---------------------------------------------------------------- expressions
    def is_bool(self, node: ast.AST) -> bool:
        if isinstance(node, ast.Compare):
            return True
        if isinstance(node, ast.BoolOp):
            return True
        if isinstance(node, ast.UnaryOp) and isinstance(node.op, ast.Not):
            return True
        if isinstance(node, ast.Constant) and isinstance(node.value, bool):
            return True
        d = dotted(node)
        if d is not None and (d in self.env.bools or d in self.locals_bool):
            return True
        if isinstance(node, ast.Call):
            d = dotted(node.func)
            if d is not None and ('call:' + d) in self.env.bools:
                return True
        return False

    def cond(self, node: ast.AST) -> str:
        """A Python truth-test as a Coq bool."""
        if self.is_bool(node):
            return self.expr(node)
        # integer truthiness
        return f'(negb ({self.expr(node)} =? 0))'

    def expr(self, node: ast.AST) -> str:
        if isinstance(node, ast.Constant):
            if isinstance(node.value, bool):
                return 'true' if node.value else 'false'
            if isinstance(node.value, int):
                return f'({node.value})' if node.value < 0 else f'{node.value}'
            self.fail(node, 'constant type')
        d = dotted(node)
        if d is not None:
            if d in self.env.names:
                return self.env.names[d]
            self.fail(node, 'unknown name')
        if isinstance(node, ast.BoolOp):
            op = 'andb' if isinstance(node.op, ast.And) else 'orb'
            parts = [self.cond(v) for v in node.values]
            acc = parts[-1]
            for p in reversed(parts[:-1]):
                acc = f'({op} {p} {acc})'
            return acc
        if isinstance(node, ast.UnaryOp):
            if isinstance(node.op, ast.Not):
                return f'(negb {self.cond(node.operand)})'
            if isinstance(node.op, ast.USub):
                return f'(- {self.expr(node.operand)})'
            self.fail(node, 'unary op')
        if isinstance(node, ast.BinOp):
            a, b = self.expr(node.left), self.expr(node.right)
            if isinstance(node.op, ast.Add):
                return f'({a} + {b})'
            if isinstance(node.op, ast.Sub):
                return f'({a} - {b})'
            if isinstance(node.op, ast.Mult):
                return f'({a} * {b})'
            if isinstance(node.op, ast.FloorDiv):
                return f'({a} / {b})'  # Z./ is floor division, as Python's //
            if isinstance(node.op, ast.Mod):
                return f'({a} mod {b})'
            self.fail(node, 'binary op')
        if isinstance(node, ast.Compare):
            parts = []
            left = node.left
            for op, right in zip(node.ops, node.comparators):
                parts.append(self.compare(node, op, left, right))
                left = right
            acc = parts[-1]
            for p in reversed(parts[:-1]):
                acc = f'(andb {p} {acc})'
            return acc
        if isinstance(node, ast.IfExp):
            return f'(if {self.cond(node.test)} then {self.expr(node.body)} else {self.expr(node.orelse)})'
        if isinstance(node, ast.Call):
            d = dotted(node.func)
            if d is not None and d in self.env.calls:
                return self.env.calls[d](self, node)
            self.fail(node, 'call not whitelisted')
        if isinstance(node, ast.Tuple):
            return '(' + ', '.join(self.expr(e) for e in node.elts) + ')'
        self.fail(node, 'expression shape')

    def compare(self, whole, op, left, right) -> str:
        if isinstance(op, (ast.In, ast.NotIn)):
            if not isinstance(right, (ast.Tuple, ast.List)):
                # membership in a named container handled by env.calls['in:<name>']
                d = dotted(right)
                key = 'in:' + (d or '?')
                if key in self.env.calls:
                    t = self.env.calls[key](self, left)
                    return t if isinstance(op, ast.In) else f'(negb {t})'
                self.fail(whole, 'membership in a non-literal container')
            a = self.expr(left)
            parts = [f'({a} =? {self.expr(e)})' for e in right.elts]
            acc = 'false'
            for p in reversed(parts):
                acc = f'(orb {p} {acc})'
            return acc if isinstance(op, ast.In) else f'(negb {acc})'
        if self.is_bool(left) or self.is_bool(right):
            a, b = self.cond(left), self.cond(right)
            if isinstance(op, (ast.Eq, ast.Is)):
                return f'(Bool.eqb {a} {b})'
            if isinstance(op, (ast.NotEq, ast.IsNot)):
                return f'(negb (Bool.eqb {a} {b}))'
            self.fail(whole, 'ordering on booleans')
        a, b = self.expr(left), self.expr(right)
        if isinstance(op, (ast.Eq, ast.Is)):
            return f'({a} =? {b})'
        if isinstance(op, (ast.NotEq, ast.IsNot)):
            return f'(negb ({a} =? {b}))'
        if isinstance(op, ast.Lt):
            return f'({a} <? {b})'
        if isinstance(op, ast.LtE):
            return f'({a} <=? {b})'
        if isinstance(op, ast.Gt):
            return f'({a} >? {b})'
        if isinstance(op, ast.GtE):
            return f'({a} >=? {b})'
        self.fail(whole, 'comparison operator')

    # ---------------------------------------------------------------- statements
    def assigned(self, stmts) -> list[str]:
        out: list[str] = []

        def add(n):
            if n not in out:
                out.append(n)

        for s in stmts:
            if self.env.skip_stmt(s):
                continue
            if isinstance(s, ast.Assign):
                for t in s.targets:
                    d = dotted(t)
                    if d is None:
                        self.fail(s, 'assignment target')
                    add(d)
            elif isinstance(s, ast.AnnAssign):
                d = dotted(s.target)
                if d is None:
                    self.fail(s, 'assignment target')
                add(d)
            elif isinstance(s, ast.AugAssign):
                d = dotted(s.target)
                if d is None:
                    self.fail(s, 'assignment target')
                add(d)
            elif isinstance(s, ast.If):
                for n in self.assigned(s.body) + self.assigned(s.orelse):
                    add(n)
            elif isinstance(s, ast.Expr) and isinstance(s.value, ast.Call):
                d = dotted(s.value.func)
                if d in self.env.effects:
                    for var, _ in self.env.effects[d](self, s.value):
                        add(var)
        return out

    def terminates(self, stmts) -> bool:
        """Does every path through the block end in return/raise?"""
        if not stmts:
            return False
        last = stmts[-1]
        if isinstance(last, (ast.Return, ast.Raise)):
            return True
        if isinstance(last, ast.If):
            return bool(last.orelse) and self.terminates(last.body) and self.terminates(last.orelse)
        return False

    def var(self, pyname: str) -> str:
        if pyname not in self.env.names:
            self.fail(ast.Name(id=pyname), 'assignment to a name the environment does not declare')
        return self.env.names[pyname]

    def block(self, stmts, cont: str | None) -> str:
        """Translate stmts; `cont` is the Coq term for "fell off the end" (None = not allowed)."""
        if not stmts:
            if cont is None:
                raise Untranslatable(f'{self.src_name}: control falls off the end of a block that must return')
            return cont
        s, rest = stmts[0], stmts[1:]
        if self.env.skip_stmt(s):
            return self.block(rest, cont)
        if isinstance(s, ast.Expr) and isinstance(s.value, ast.Constant) and isinstance(s.value.value, str):
            return self.block(rest, cont)  # docstring
        if isinstance(s, ast.Pass):
            return self.block(rest, cont)
        if isinstance(s, (ast.Assign, ast.AnnAssign)):
            target = s.targets[0] if isinstance(s, ast.Assign) else s.target
            if isinstance(s, ast.Assign) and len(s.targets) != 1:
                self.fail(s, 'chained assignment')
            d = dotted(target)
            if d is None:
                self.fail(s, 'assignment target')
            if s.value is None:
                return self.block(rest, cont)
            if self.is_bool(s.value):
                self.locals_bool.add(d)
                val = self.cond(s.value)
            else:
                val = self.expr(s.value)
            return f'let {self.var(d)} := {val} in\n{self.block(rest, cont)}'
        if isinstance(s, ast.AugAssign):
            d = dotted(s.target)
            if d is None:
                self.fail(s, 'assignment target')
            v = self.var(d)
            if isinstance(s.op, ast.Add):
                val = f'({v} + {self.expr(s.value)})'
            elif isinstance(s.op, ast.Sub):
                val = f'({v} - {self.expr(s.value)})'
            else:
                self.fail(s, 'augmented operator')
            return f'let {v} := {val} in\n{self.block(rest, cont)}'
        if isinstance(s, ast.Return):
            if s.value is None:
                vals = []
            elif isinstance(s.value, ast.Tuple):
                vals = [self.cond(e) if self.is_bool(e) else self.expr(e) for e in s.value.elts]
            else:
                vals = [self.cond(s.value) if self.is_bool(s.value) else self.expr(s.value)]
            return self.env.ret(self, vals)
        if isinstance(s, ast.Raise):
            if self.env.raise_term is None:
                self.fail(s, 'raise without a raise_term')
            return self.env.raise_term(self, s)
        if isinstance(s, ast.Expr) and isinstance(s.value, ast.Call):
            d = dotted(s.value.func)
            if d not in self.env.effects:
                self.fail(s, 'statement call not whitelisted')
            saved = set(self.locals_bool)
            binds = self.env.effects[d](self, s.value)
            self.locals_bool = saved
            out = ''
            for var, term in binds:
                out += f'let {self.var(var)} := {term} in\n'
            return out + self.block(rest, cont)
        if isinstance(s, ast.If):
            c = self.cond(s.test)
            body_t, else_t = self.terminates(s.body), self.terminates(s.orelse)
            if body_t and else_t:
                return f'if {c} then ({self.block(s.body, None)}) else ({self.block(s.orelse, None)})'
            if body_t:
                # the rest of the block is only reached through the else branch
                return f'if {c} then ({self.block(s.body, None)}) else ({self.block(list(s.orelse) + list(rest), cont)})'
            if else_t:
                return f'if {c} then ({self.block(list(s.body) + list(rest), cont)}) else ({self.block(s.orelse, None)})'
            names = self.assigned(s.body) + [n for n in self.assigned(s.orelse) if n not in self.assigned(s.body)]
            if self.contains_exit(s.body) or self.contains_exit(s.orelse):
                # a return buried in one path: duplicate the continuation (blocks are small)
                return (
                    f'if {c} then ({self.block(list(s.body) + list(rest), cont)}) '
                    f'else ({self.block(list(s.orelse) + list(rest), cont)})'
                )
            if not names:
                return self.block(rest, cont)
            tup = '(' + ', '.join(self.var(n) for n in names) + ')' if len(names) > 1 else self.var(names[0])
            pat = "'" + tup if len(names) > 1 else tup
            saved = set(self.locals_bool)
            a = self.block(s.body, tup)
            self.locals_bool = set(saved)
            b = self.block(s.orelse, tup)
            self.locals_bool = saved
            return f'let {pat} := (if {c} then ({a}) else ({b})) in\n{self.block(rest, cont)}'
        self.fail(s, 'statement shape')

    def contains_exit(self, stmts) -> bool:
        for s in stmts:
            if isinstance(s, (ast.Return, ast.Raise)):
                return True
            if isinstance(s, ast.If) and (self.contains_exit(s.body) or self.contains_exit(s.orelse)):
                return True
        return False


def find_function(tree: ast.AST, path: list[str]) -> ast.FunctionDef | ast.AsyncFunctionDef:
    """path like ['loop', 'one'] or ['ReceiveTimer', 'check_ka_timer']."""
    node = tree
    for name in path:
        found = None
        for child in ast.walk(node) if node is tree else ast.iter_child_nodes(node):
            if isinstance(child, (ast.FunctionDef, ast.AsyncFunctionDef, ast.ClassDef)) and child.name == name:
                found = child
                break
        if found is None:
            raise Untranslatable(f'cannot find {".".join(path)} (missing {name})')
        node = found
    if not isinstance(node, (ast.FunctionDef, ast.AsyncFunctionDef)):
        raise Untranslatable(f'{".".join(path)} is not a function')
    return node


def write_if_changed(path: str, text: str) -> bool:
    try:
        with open(path) as f:
            if f.read() == text:
                return False
    except FileNotFoundError:
        pass
    with open(path, 'w') as f:
        f.write(text)
    return True
