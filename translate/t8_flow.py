"""T8 - bgp/message/update/nlri/flow.py -> coq/gen/Gen_Flow.v   (fail closed)

Generated (import-time reflection, cross-checked against the `ast` of the same file):
  EOL AND LEN OPERATOR, NUM_LT NUM_GT NUM_EQ, BIN_NOT BIN_MATCH        operator byte layout
  VALUE_WIDTHS                                                         _VALUE_WIDTHS / CommonOperator.length
  table4 table6 : list (Z * (Z * Z))    component id -> (kind, widest value the class encodes)
        kind 1 = prefix, 2 = numeric operator list, 3 = binary operator list (module tables `decode`/`factory`)
        the width rule of every class is checked by running `encode` on the boundary values
  LEN_COMPACT_MAX LEN_EXT_MAX len_compact len_extended                 Flow._encode_length (comparison
        operators taken from the ast), LEN_EXT_MASK LEN_EXT_VALUE LEN_LOWER_MASK LEN_EXT_SHIFT (unpack_nlri)
  RD_LEN                                                               the `8` of _parse_rules / rd
"""

from __future__ import annotations

import ast
import importlib
import os
import sys

from translate.py2coq import Untranslatable, write_if_changed

SRC = 'src/exabgp/bgp/message/update/nlri/flow.py'


def _func(tree, cls, name):
    for node in ast.walk(tree):
        if isinstance(node, ast.ClassDef) and node.name == cls:
            for s in node.body:
                if isinstance(s, ast.FunctionDef) and s.name == name:
                    return s
    raise Untranslatable(f'{cls}.{name} not found')


def _norm(node):
    return ast.unparse(node).replace(' ', '')


def _load(repo):
    want = os.path.realpath(os.path.join(repo, SRC))
    mod = importlib.import_module('exabgp.bgp.message.update.nlri.flow')
    if os.path.realpath(mod.__file__) != want:
        raise Untranslatable(f'exabgp is imported from {mod.__file__}, not from {want}')
    return mod


def _int(v, what):
    if isinstance(v, bool) or not isinstance(v, int):
        raise Untranslatable(f'{what} is not an int: {v!r}')
    return v


def encode_length_tests(tree, consts):
    """Flow._encode_length must be: if lc <op1> A: one byte; if lc <op2> B: pack('!H', lc | (V << 8)); raise."""
    fn = _func(tree, 'Flow', '_encode_length')
    body = [s for s in fn.body if not (isinstance(s, ast.Expr) and isinstance(s.value, ast.Constant))]
    if len(body) != 4:
        raise Untranslatable('_encode_length: unexpected statement count')
    if _norm(body[0]) != 'lc=len(components)':
        raise Untranslatable('_encode_length: first statement is not lc = len(components)')
    out = []
    for stmt, ret in ((body[1], 'returnbytes([lc])+components'),
                      (body[2], "returnpack('!H',lc|FLOW_LENGTH_EXTENDED_VALUE<<8)+components")):
        if not (isinstance(stmt, ast.If) and not stmt.orelse and len(stmt.body) == 1):
            raise Untranslatable('_encode_length: if shape')
        t = stmt.test
        if not (isinstance(t, ast.Compare) and len(t.ops) == 1 and isinstance(t.left, ast.Name) and t.left.id == 'lc'
                and isinstance(t.comparators[0], ast.Name)):
            raise Untranslatable('_encode_length: test shape ' + _norm(t))
        op = {ast.Lt: '<?', ast.LtE: '<=?'}.get(type(t.ops[0]))
        if op is None:
            raise Untranslatable('_encode_length: comparison operator ' + _norm(t))
        name = t.comparators[0].id
        if name not in consts:
            raise Untranslatable('_encode_length: unknown bound ' + name)
        if _norm(stmt.body[0]) != ret:
            raise Untranslatable('_encode_length: return shape ' + _norm(stmt.body[0]))
        out.append((op, name))
    if not isinstance(body[3], ast.Raise):
        raise Untranslatable('_encode_length: does not end by raising')
    return out


def unpack_length_shape(tree):
    fn = _func(tree, 'Flow', 'unpack_nlri')
    src = _norm(fn)
    need = [
        'length,data=(data[0],data[1:])',
        'iflength&FLOW_LENGTH_EXTENDED_MASK==FLOW_LENGTH_EXTENDED_VALUE:',
        'extra,data=(data[0],data[1:])',
        'length=((length&FLOW_LENGTH_LOWER_MASK)<<FLOW_LENGTH_EXTENDED_SHIFT)+extra',
        'iflength>len(data):',
        'over=data[length:]',
        'packed=bytes(data[:length])',
    ]
    pos = 0
    for n in need:
        i = src.find(n, pos)
        if i < 0:
            raise Untranslatable('unpack_nlri: expected statement not found (in order): ' + n)
        pos = i + len(n)


def parse_shape(tree):
    src = _norm(_func(tree, 'Flow', '_parse_operations'))
    for n in ['end=CommonOperator.eol(byte)', 'operator=CommonOperator.operator(byte)',
              'length=CommonOperator.length(byte)', 'iflengthnotin_VALUE_WIDTHS:',
              'value_bytes,bgp=(bytes(bgp[:length]),bgp[length:])', 'iflen(value_bytes)!=length:']:
        if n not in src:
            raise Untranslatable('_parse_operations: expected statement not found: ' + n)
    src = _norm(_func(tree, 'Flow', '_parse_rules'))
    for n in ['ifself.safiin(SAFI.flow_vpn,)andlen(bgp)>=8:', 'bgp=bgp[8:]', 'ifwhatnotindecode.get(self.afi,{}):']:
        if n not in src:
            raise Untranslatable('_parse_rules: expected statement not found: ' + n)
    src = _norm(_func(tree, 'Flow', '_pack_from_rules'))
    for n in ['forIDinsorted(self.rules.keys()):', 'rule.operations&=CommonOperator.EOL^255',
              'rules[-1].operations|=CommonOperator.EOL', 'ifIDnotin(FlowDestination.ID,FlowSource.ID):',
              'ordered_rules.append(bytes([ID]))', "ordered_rules.append(b''.join((rule.pack()forruleinrules)))",
              "components=bytes(rd_to_use.pack_rd())+b''.join(ordered_rules)"]:
        if n not in src:
            raise Untranslatable('_pack_from_rules: expected statement not found: ' + n)
    src = _norm(_func(tree, 'IOperation', 'pack'))
    for n in ['length,value=self.encode(self.value)', 'op=self.operations|_len_to_bit(length)', 'returnbytes([op])+value']:
        if n not in src:
            raise Untranslatable('IOperation.pack: expected statement not found: ' + n)


def width_rule(kls, maxw):
    """Run kls.encode on boundary values: the shortest of the class' widths that holds the value,
    an exception when none does."""
    obj = kls.__new__(kls)
    for v in [0, 1, 255, 256, 65535, 65536, (1 << 32) - 1, 1 << 32]:
        want = next((w for w in (1, 2, 4) if w <= maxw and v < (1 << (8 * w))), None)
        try:
            got = kls.encode(obj, v)
        except Exception:
            got = None
        if want is None:
            if got is not None:
                raise Untranslatable(f'{kls.__name__}.encode({v}) does not refuse a value wider than {maxw} bytes')
        elif got is None or got[0] != want or bytes(got[1]) != v.to_bytes(want, 'big'):
            raise Untranslatable(f'{kls.__name__}.encode({v}) = {got}, expected width {want}')


def generate(repo: str) -> str:
    path = os.path.join(repo, SRC)
    tree = ast.parse(open(path).read())
    mod = _load(repo)
    from exabgp.protocol.family import AFI

    CO, NO, BO = mod.CommonOperator, mod.NumericOperator, mod.BinaryOperator
    c = {
        'EOL': _int(CO.EOL, 'EOL'), 'AND': _int(CO.AND, 'AND'), 'LEN': _int(CO.LEN, 'LEN'),
        'OPERATOR': _int(CO.OPERATOR, 'OPERATOR'),
        'NUM_LT': _int(NO.LT, 'LT'), 'NUM_GT': _int(NO.GT, 'GT'), 'NUM_EQ': _int(NO.EQ, 'EQ'),
        'BIN_NOT': _int(BO.NOT, 'NOT'), 'BIN_MATCH': _int(BO.MATCH, 'MATCH'),
    }
    if NO.NEQ != NO.LT | NO.GT or NO.TRUE != NO.LT | NO.GT | NO.EQ or NO.FALSE != 0 or BO.INCLUDE != 0 or BO.DIFF != BO.NOT | BO.MATCH:
        raise Untranslatable('derived operator constants changed')
    if tuple(mod._VALUE_WIDTHS) != (1, 2, 4, 8):
        raise Untranslatable('_VALUE_WIDTHS changed')
    for b in range(256):
        if CO.length(b) != 1 << ((b & c['LEN']) >> 4) or CO.eol(b) != b & c['EOL'] or CO.operator(b) != b & c['OPERATOR']:
            raise Untranslatable('CommonOperator.eol/operator/length are not the masks they were')
    for w, bits in ((1, 0), (2, 1), (4, 2), (8, 3)):
        if mod._len_to_bit(w) != bits << 4:
            raise Untranslatable('_len_to_bit changed')

    tables = {}
    for afi, tag in ((AFI.ipv4, 'table4'), (AFI.ipv6, 'table6')):
        rows = []
        if set(mod.decode[afi]) != set(mod.factory[afi]):
            raise Untranslatable('decode and factory tables disagree')
        for cid in sorted(mod.factory[afi]):
            kls = mod.factory[afi][cid]
            kind = {'prefix': 1, 'numeric': 2, 'binary': 3}.get(mod.decode[afi][cid])
            if kind is None or _int(kls.ID, 'ID') != cid or not (1 <= cid <= 255):
                raise Untranslatable(f'component {cid}: unexpected table entry')
            if kind == 1:
                base = mod.IPrefix4 if afi == AFI.ipv4 else mod.IPrefix6
                if not issubclass(kls, base) or cid not in (mod.FlowDestination.ID, mod.FlowSource.ID):
                    raise Untranslatable(f'component {cid}: prefix class of the wrong family')
                maxw = 0
            else:
                sizes = tuple(kls.VALUE_SIZES)
                if sizes not in ((1,), (1, 2), (1, 2, 4)):
                    raise Untranslatable(f'component {cid}: VALUE_SIZES {sizes}')
                maxw = sizes[-1]
                width_rule(kls, maxw)
                if (kls.OPERATION == 'binary') != (kind == 3):
                    raise Untranslatable(f'component {cid}: OPERATION and decode table disagree')
            rows.append((cid, kind, maxw))
        tables[tag] = rows
    if (mod.FlowDestination.ID, mod.FlowSource.ID) != (1, 2):
        raise Untranslatable('prefix component ids changed')

    lc = {k: _int(getattr(mod, 'FLOW_LENGTH_' + k), k) for k in
          ('EXTENDED_MASK', 'EXTENDED_VALUE', 'LOWER_MASK', 'EXTENDED_SHIFT', 'COMPACT_MAX', 'EXTENDED_MAX')}
    tests = encode_length_tests(tree, {'FLOW_LENGTH_' + k for k in lc})
    # Model_Flow writes the masks as arithmetic (b / 16 mod 4, b mod 16, l0 / 16 * 16, l0 mod 16): pin them
    if (c['EOL'], c['AND'], c['LEN'], c['OPERATOR']) != (0x80, 0x40, 0x30, 0x4F):
        raise Untranslatable('operator byte layout changed: the hand model hard-codes EOL/AND/LEN/OPERATOR positions')
    if (lc['EXTENDED_MASK'], lc['EXTENDED_VALUE'], lc['LOWER_MASK']) != (0xF0, 0xF0, 0x0F):
        raise Untranslatable('extended length masks changed: the hand model hard-codes them')
    if lc['EXTENDED_SHIFT'] not in (8, 16) or lc['COMPACT_MAX'] != 240 or lc['EXTENDED_MAX'] != 4095:
        raise Untranslatable('length thresholds changed')
    unpack_length_shape(tree)
    parse_shape(tree)

    out = ['(* GENERATED by translate/t8_flow.py - do not edit *)', 'From Coq Require Import ZArith Bool List.',
           'Import ListNotations.', 'Open Scope Z_scope.']
    for k, v in c.items():
        out.append(f'Definition {k} : Z := {v}.')
    out.append('Definition VALUE_WIDTHS : list Z := [1; 2; 4; 8].')
    for tag, rows in tables.items():
        out.append(f'Definition {tag} : list (Z * (Z * Z)) := [' + '; '.join(f'({i}, ({k}, {w}))' for i, k, w in rows) + '].')
    out.append(f'Definition LEN_COMPACT_MAX : Z := {lc["COMPACT_MAX"]}.')
    out.append(f'Definition LEN_EXT_MAX : Z := {lc["EXTENDED_MAX"]}.')
    out.append(f'Definition LEN_EXT_MASK : Z := {lc["EXTENDED_MASK"]}.')
    out.append(f'Definition LEN_EXT_VALUE : Z := {lc["EXTENDED_VALUE"]}.')
    out.append(f'Definition LEN_LOWER_MASK : Z := {lc["LOWER_MASK"]}.')
    out.append(f'Definition LEN_EXT_SHIFT : Z := {lc["EXTENDED_SHIFT"]}.')
    (op1, n1), (op2, n2) = tests
    out.append(f'Definition len_compact (lc : Z) : bool := lc {op1} {lc[n1[len("FLOW_LENGTH_"):]]}.')
    out.append(f'Definition len_extended (lc : Z) : bool := lc {op2} {lc[n2[len("FLOW_LENGTH_"):]]}.')
    out.append('Definition RD_LEN : Z := 8.')
    return '\n'.join(out) + '\n'


def main(repo: str, gen_dir: str) -> None:
    write_if_changed(os.path.join(gen_dir, 'Gen_Flow.v'), generate(repo))


if __name__ == '__main__':
    sys.stdout.write(generate(sys.argv[1] if len(sys.argv) > 1 else '/repo'))
