"""T9 - value domains of the route text grammar -> coq/gen/Gen_TextDomains.v

For every scalar keyword of the route / flow / vpls grammar this translator extracts, from the SOURCE
of the parser function (python ast) and of the constructor the parsed number is handed to, the accept
predicate the code applies to the number v written in the text:

  * every `if <test on the number>: raise ValueError/Exception(...)` guard   -> conjunct  negb <test>
  * a digit gate on the token (`value.isdigit()`, `_decimal(value)`, 0x syntax)  -> conjunct  0 <=? v
  * `bytes([number])` (python raises ValueError outside 0..255)              -> conjunct  0 <=? v <? 256
  * `if <test>: return value` of Resource._value (positive form)             -> conjunct  <test>
  * the rd encoding chain `if a: .. elif b: .. else: raise`                  -> conjunct  a || b
  * nothing of the above -> `fun _ => true` (the parser applies no range test)

Constants (`Community.MAX`, `Labels.MAX`, `pow(2, 16)`, module constants) are folded to numerals: local /
module constants from the ast, class attributes by import-time reflection of the same tree.

Fail closed, field by field: the number must be derived from the token by a whitelisted statement, every
other statement that mentions it must be whitelisted (a new use is a new sink we know nothing about), every
`if` that mentions it must be a guard of a known shape.  A field that cannot be translated is left out of
the generated file (the proofs about it stop compiling) and the translator raises after writing the rest.
The harness additionally runs every generated predicate against the real parser (correspondence)."""

from __future__ import annotations

import ast
import importlib
import os
import sys

from translate.py2coq import Env, Tr, Untranslatable, dotted, find_function, write_if_changed

SRC = 'src/exabgp'

# --------------------------------------------------------------------------------------------- helpers


class Source:
    """One python file of the repository: ast + the imported module (for class constants)."""

    cache: dict = {}

    def __init__(self, repo, rel):
        self.rel = rel
        self.path = os.path.join(repo, SRC, rel)
        self.text = open(self.path).read()
        self.tree = ast.parse(self.text)
        modname = 'exabgp.' + rel[:-3].replace('/', '.')
        if modname.endswith('.__init__'):
            modname = modname[: -len('.__init__')]
        self.module = importlib.import_module(modname)
        got = os.path.realpath(self.module.__file__)
        if got != os.path.realpath(self.path):
            raise Untranslatable(f'{rel}: imported module comes from {got}, not from the tree being translated')

    @classmethod
    def get(cls, repo, rel):
        key = (repo, rel)
        if key not in cls.cache:
            cls.cache[key] = Source(repo, rel)
        return cls.cache[key]


def mentions(node, names):
    return any(isinstance(n, ast.Name) and n.id in names for n in ast.walk(node))


def is_raise_body(body):
    """[raise ValueError(...)] / [raise Exception(...)] (optionally `from None`)"""
    if len(body) != 1 or not isinstance(body[0], ast.Raise) or body[0].exc is None:
        return False
    exc = body[0].exc
    name = dotted(exc.func) if isinstance(exc, ast.Call) else dotted(exc)
    return name in ('ValueError', 'Exception')


def fold(node, resolve, src_name):
    """Replace constant sub-expressions by ast.Constant; `resolve(dotted name) -> int | None`."""

    class F(ast.NodeTransformer):
        def visit_Attribute(self, n):
            d = dotted(n)
            v = resolve(d) if d else None
            if v is not None:
                return ast.copy_location(ast.Constant(value=v), n)
            return self.generic_visit(n)

        def visit_Name(self, n):
            v = resolve(n.id)
            if v is not None:
                return ast.copy_location(ast.Constant(value=v), n)
            return n

        def visit_Call(self, n):
            n = self.generic_visit(n)
            if dotted(n.func) == 'pow' and len(n.args) == 2 and all(
                isinstance(a, ast.Constant) and isinstance(a.value, int) and not isinstance(a.value, bool) for a in n.args
            ) and 0 <= n.args[1].value <= 128:
                return ast.copy_location(ast.Constant(value=pow(n.args[0].value, n.args[1].value)), n)
            return n

        def visit_BinOp(self, n):
            n = self.generic_visit(n)
            if isinstance(n.left, ast.Constant) and isinstance(n.right, ast.Constant) and all(
                isinstance(x.value, int) and not isinstance(x.value, bool) for x in (n.left, n.right)
            ):
                a, b = n.left.value, n.right.value
                if isinstance(n.op, ast.LShift) and 0 <= b <= 128:
                    return ast.copy_location(ast.Constant(value=a << b), n)
                if isinstance(n.op, ast.Sub):
                    return ast.copy_location(ast.Constant(value=a - b), n)
                if isinstance(n.op, ast.Add):
                    return ast.copy_location(ast.Constant(value=a + b), n)
                if isinstance(n.op, ast.Mult):
                    return ast.copy_location(ast.Constant(value=a * b), n)
            return n

    return ast.fix_missing_locations(F().visit(ast.parse(ast.unparse(node), mode='eval').body))


def int_const(value):
    return isinstance(value, int) and not isinstance(value, bool)


def make_resolver(source, func, extra=None, cls_name=None):
    """Constants visible from `func`: extra, local `NAME = <int>` assignments, module ints, `X.ATTR` ints
    of module-level objects (reflection), `cls.ATTR` for a classmethod of `cls_name`."""
    local = {}
    for n in ast.walk(func):
        tgt = val = None
        if isinstance(n, ast.Assign) and len(n.targets) == 1 and isinstance(n.targets[0], ast.Name):
            tgt, val = n.targets[0].id, n.value
        elif isinstance(n, ast.AnnAssign) and isinstance(n.target, ast.Name) and n.value is not None:
            tgt, val = n.target.id, n.value
        if tgt and tgt.isupper() and isinstance(val, ast.Constant) and int_const(val.value):
            local[tgt] = val.value
    extra = dict(extra or {})

    def resolve(name):
        if name in extra:
            return extra[name]
        if name in local:
            return local[name]
        parts = name.split('.')
        obj = None
        if parts[0] == 'cls' and cls_name:
            obj = getattr(source.module, cls_name, None)
            parts = parts[1:]
        elif hasattr(source.module, parts[0]) and (parts[0].isupper() or parts[0].startswith('_SIZE') or len(parts) > 1):
            obj = getattr(source.module, parts[0])
            parts = parts[1:]
        else:
            return None
        for p in parts:
            if not hasattr(obj, p):
                return None
            obj = getattr(obj, p)
        return int(obj) if int_const(obj) else None

    return resolve


def to_coq(test, var_map, src_name):
    """A folded python test over the variables of var_map -> Coq bool term."""
    tr = Tr(Env(names=var_map), src_name)
    return tr.cond(test)


def and_all(terms):
    terms = [t for t in terms if t != 'true']
    if not terms:
        return 'true'
    acc = terms[-1]
    for t in reversed(terms[:-1]):
        acc = f'(andb {t} {acc})'
    return acc


NONNEG = '(0 <=? v)'

# --------------------------------------------------------------------------------------------- generic stage


def stage_guards(repo, st, field):
    """One stage = one function in which the number lives in variable st['var'] (or only as a token when
    var is None).  -> list of Coq conjuncts over `v`."""
    source = Source.get(repo, st['file'])
    func = find_function(source.tree, st['path'])
    where = f'{st["file"]}:{".".join(st["path"])}'
    cls_name = st['path'][0] if len(st['path']) > 1 else None
    resolve = make_resolver(source, func, st.get('consts'), cls_name)
    out = []
    tests = [ast.unparse(n.test) for n in ast.walk(func) if isinstance(n, ast.If)]
    gates = st.get('gates', [])
    if gates:
        if any(g in tests for g in gates):
            out.append(NONNEG)
        elif not st.get('gate_optional'):
            raise Untranslatable(f'{field}: {where}: none of the digit gates {gates} is tested any more')
    var = st.get('var')
    if var is None:
        return out
    names = {var}
    # loop variable: `for i in [a, b, c]` - the guard is on i
    if st.get('loop_iter'):
        loops = [n for n in ast.walk(func) if isinstance(n, ast.For) and isinstance(n.target, ast.Name) and n.target.id == var]
        if len(loops) != 1 or ast.unparse(loops[0].iter) != st['loop_iter']:
            raise Untranslatable(f'{field}: {where}: loop over {st["loop_iter"]} not found')
    seen_uses = set()
    found_var = False
    for n in ast.walk(func):
        if isinstance(n, ast.If) and mentions(n.test, names):
            found_var = True
            folded = fold(n.test, resolve, where)
            others = {x.id for x in ast.walk(folded) if isinstance(x, ast.Name)} - names
            if others:
                if st.get('ignore_tests') and ast.unparse(n.test) in st['ignore_tests']:
                    continue
                raise Untranslatable(f'{field}: {where}:{n.lineno}: test mixes the number with {sorted(others)}: {ast.unparse(n.test)}')
            if is_raise_body(n.body) and not n.orelse:
                term = f'(negb {to_coq(folded, {var: "v"}, where)})'
            elif st.get('positive_return') and len(n.body) == 1 and isinstance(n.body[0], ast.Return) \
                    and dotted(n.body[0].value) == var and not n.orelse:
                term = to_coq(folded, {var: 'v'}, where)
            else:
                raise Untranslatable(f'{field}: {where}:{n.lineno}: an `if` on the number that is not a raise guard: {ast.unparse(n.test)}')
            if term not in out:
                out.append(term)
        elif isinstance(n, (ast.Assign, ast.AnnAssign, ast.AugAssign, ast.Return, ast.Expr)) and mentions(n, names):
            found_var = True
            text = ast.unparse(n)
            if text not in st['uses']:
                raise Untranslatable(f'{field}: {where}:{n.lineno}: the number is used in a statement that is not whitelisted: {text}')
            seen_uses.add(text)
            for sub in ast.walk(n):
                if isinstance(sub, ast.Call) and dotted(sub.func) == 'bytes' and len(sub.args) == 1 \
                        and isinstance(sub.args[0], ast.List) and len(sub.args[0].elts) == 1 \
                        and dotted(sub.args[0].elts[0]) == var:
                    term = '(andb (0 <=? v) (v <? 256))'
                    if term not in out:
                        out.append(term)
        elif isinstance(n, ast.Raise) and mentions(n, names):
            found_var = True  # error message only
    if not found_var and not st.get('var_optional'):
        raise Untranslatable(f'{field}: {where}: variable {var} not found')
    missing = [u for u in st.get('must_use', []) if u not in seen_uses]
    if missing:
        raise Untranslatable(f'{field}: {where}: expected statement(s) gone: {missing}')
    return out


# --------------------------------------------------------------------------------------------- field table

P_STATIC = 'configuration/static/parser.py'
P_MPLS = 'configuration/static/mpls.py'
P_FLOWP = 'configuration/flow/parser.py'
P_L2 = 'configuration/l2vpn/parser.py'
P_FLOW = 'bgp/message/update/nlri/flow.py'
P_ASN = 'bgp/message/open/asn.py'
P_RES = 'protocol/resource.py'
P_MASK = 'protocol/ip/netmask.py'

LC_GATES = [
    'not all(map(lambda c: c.isdigit(), [prefix, affix, suffix]))',
    'not all((c.isdigit() for c in [prefix, affix, suffix]))',
    'not all((c.isdigit() for c in (prefix, affix, suffix)))',
    'not (prefix.isdigit() and affix.isdigit() and suffix.isdigit())',
    'not prefix.isdigit() or not affix.isdigit() or (not suffix.isdigit())',
]


def vpls(fn):
    return [dict(file=P_L2, path=[fn], var='number', uses=['number = int(tokeniser())', 'return number'],
                 must_use=['number = int(tokeniser())'])]


def flowconv(fn):
    return [dict(file=P_FLOW, path=[fn], var='number', uses=['number = int(data)', 'return number'],
                 must_use=['number = int(data)'])]


FIELDS = {
    'med': [
        dict(file=P_STATIC, path=['med'], var=None, gates=['not value.isdigit()']),
        dict(file='bgp/message/update/attribute/med.py', path=['MED', 'from_int'], var='med',
             uses=["return cls(pack('!L', med))"]),
    ],
    'local_preference': [
        dict(file=P_STATIC, path=['local_preference'], var=None, gates=['not value.isdigit()']),
        dict(file='bgp/message/update/attribute/localpref.py', path=['LocalPreference', 'from_int'], var='localpref',
             uses=["return cls(pack('!L', localpref))"]),
    ],
    'aigp': [
        dict(file=P_STATIC, path=['aigp'], var='number',
             uses=['number = int(value, base)', 'return AIGP.from_int(number)'], must_use=['number = int(value, base)']),
        dict(file='bgp/message/update/attribute/aigp.py', path=['AIGPBase', 'from_int'], var='value',
             uses=["return cls(cls._TLV_HEADER + pack('!Q', value))"]),
    ],
    'asn': [
        dict(file=P_ASN, path=['ASN', 'from_string'], var='as_number', gates=['not _decimal(value)'],
             uses=['as_number = int(value)', 'return cls(as_number)'], must_use=['as_number = int(value)']),
    ],
    'asn_dotted_part': [
        dict(file=P_ASN, path=['ASN', 'from_string'], var='number', gates=['not _decimal(part)'],
             uses=['number = int(part)', 'components.append(number)'], must_use=['number = int(part)']),
    ],
    'community_high': [
        dict(file=P_STATIC, path=['_community'], var='prefix_int', gates=['not prefix.isdigit() or not suffix.isdigit()'],
             uses=['prefix_int, suffix_int = (int(prefix), int(suffix))',
                   "return Community(pack('!L', (prefix_int << 16) + suffix_int))"],
             must_use=['prefix_int, suffix_int = (int(prefix), int(suffix))']),
    ],
    'community_low': [
        dict(file=P_STATIC, path=['_community'], var='suffix_int', gates=['not prefix.isdigit() or not suffix.isdigit()'],
             uses=['prefix_int, suffix_int = (int(prefix), int(suffix))',
                   "return Community(pack('!L', (prefix_int << 16) + suffix_int))"],
             must_use=['prefix_int, suffix_int = (int(prefix), int(suffix))']),
    ],
    'community_number': [
        dict(file=P_STATIC, path=['_community'], var='number', gates=['value.isdigit()'],
             uses=['number = int(value, 16)', 'number = int(value)', "return Community(pack('!L', number))"],
             must_use=['number = int(value)']),
    ],
    'large_community_part': [
        dict(file=P_STATIC, path=['_large_community'], var='i', loop_iter='[prefix_int, affix_int, suffix_int]',
             gates=LC_GATES, gate_optional=True, uses=[]),
    ],
    'label': [
        dict(file=P_MPLS, path=['label'], var='lbl', uses=['lbl = int(value)', 'labels.append(lbl)'],
             must_use=['lbl = int(value)']),
    ],
    'path_information': [
        dict(file=P_STATIC, path=['path_information'], var=None, gates=['pi.isdigit()']),
        dict(file='bgp/message/update/nlri/qualifier/path.py', path=['PathInfo', 'make_from_integer'], var='integer',
             uses=["packed = b''.join((bytes([integer >> offset & 255]) for offset in [24, 16, 8, 0]))",
                   "packed = pack('!L', integer)"]),
    ],
    'attribute_code': [
        dict(file=P_STATIC, path=['attribute'], var='code_int', gates=["not code.startswith('0x')"],
             uses=['code_int: int = int(code, 16)', 'return GenericAttribute.make_generic(code_int, flag_int, data_bytes)'],
             must_use=['code_int: int = int(code, 16)']),
    ],
    'attribute_flag': [
        dict(file=P_STATIC, path=['attribute'], var='flag_int', gates=["not flag.startswith('0x')"],
             uses=['flag_int: int = int(flag, 16)', 'return GenericAttribute.make_generic(code_int, flag_int, data_bytes)'],
             must_use=['flag_int: int = int(flag, 16)']),
    ],
    'vpls_endpoint': vpls('vpls_endpoint'),
    'vpls_size': vpls('vpls_size'),
    'vpls_offset': vpls('vpls_offset'),
    'vpls_base': vpls('vpls_base'),
    'flow_packet_length': flowconv('packet_length'),
    'flow_dscp': flowconv('dscp_value'),
    'flow_traffic_class': flowconv('class_value'),
    'flow_flow_label': flowconv('label_value'),
    'flow_mark': [
        dict(file=P_FLOWP, path=['mark'], var='dscp_value', gates=['not value.isdigit()'],
             uses=['dscp_value: int = int(value)', 'return ExtendedCommunities().add(TrafficMark.make_traffic_mark(dscp_value))'],
             must_use=['dscp_value: int = int(value)']),
    ],
    'mask_ipv4': [
        dict(file=P_MASK, path=['NetMask', 'make_netmask'], var='value', gates=['not str(string).isdigit()'],
             consts={'maximum': 32}, uses=['value = int(string)', 'klass = cls(value)', 'klass = int.__new__(cls, value)'], must_use=['value = int(string)']),
    ],
    'mask_ipv6': [
        dict(file=P_MASK, path=['NetMask', 'make_netmask'], var='value', gates=['not str(string).isdigit()'],
             consts={'maximum': 128}, uses=['value = int(string)', 'klass = cls(value)', 'klass = int.__new__(cls, value)'], must_use=['value = int(string)']),
    ],
    'flow_mask_ipv4': [
        dict(file=P_FLOW, path=['IPrefix4', 'make_prefix4'], var='netmask',
             uses=['packed = bytes([netmask]) + raw[:CIDR.size(netmask)]']),
    ],
    'flow_mask_ipv6': [
        # (a test relating the offset to the prefix length is about the offset, written 0 by the grammar's plain form)
        dict(file=P_FLOW, path=['IPrefix6', 'make_prefix6'], var='netmask', ignore_tests=['not 0 <= offset <= netmask'],
             uses=['packed = bytes([netmask]) + raw[:CIDR.size(netmask)]']),
    ],
}

# flow components whose value goes through Resource._value (decimal branch): component class -> converter owner
RESOURCE_FIELDS = {
    'flow_port': ('FlowAnyPort', 'port_value'),
    'flow_protocol': ('FlowIPProtocol', 'Protocol'),
    'flow_next_header': ('FlowNextHeader', 'Protocol'),
    'flow_icmp_type': ('FlowICMPType', 'ICMPType'),
    'flow_icmp_code': ('FlowICMPCode', 'ICMPCode'),
}
# flow components with an own converter function: field -> component class
FLOW_CLASS = {
    'flow_packet_length': 'FlowPacketLength',
    'flow_dscp': 'FlowDSCP',
    'flow_traffic_class': 'FlowTrafficClass',
    'flow_flow_label': 'FlowFlowLabel',
}
FLOW_CONVERTER = {'flow_packet_length': 'packet_length', 'flow_dscp': 'dscp_value', 'flow_traffic_class': 'class_value',
                  'flow_flow_label': 'label_value'}


def netmask_maximum_check(repo):
    """`maximum = 32` under afi == AFI.ipv4 and `maximum = 128` under afi == AFI.ipv6 (used as consts above)."""
    source = Source.get(repo, P_MASK)
    func = find_function(source.tree, ['NetMask', 'make_netmask'])
    got = {}
    for n in ast.walk(func):
        if isinstance(n, ast.If):
            chain = [(n.test, n.body)]
            if len(n.orelse) == 1 and isinstance(n.orelse[0], ast.If):
                chain.append((n.orelse[0].test, n.orelse[0].body))
            for test, body in chain:
                t = ast.unparse(test)
                if t in ('afi == AFI.ipv4', 'afi == AFI.ipv6'):
                    for s in body:
                        if isinstance(s, ast.Assign) and ast.unparse(s.targets[0]) == 'maximum' and isinstance(s.value, ast.Constant):
                            got[t] = s.value.value
    if got != {'afi == AFI.ipv4': 32, 'afi == AFI.ipv6': 128}:
        raise Untranslatable(f'NetMask.make_netmask: per-family maximum changed: {got}')


def flow_component_conjuncts(repo, field, klass_name):
    """The optional shared width check of flow/parser.py (`_flow_value(klass, string)`): guards on `number`
    with `limit` = 1 << (8 * max(klass.VALUE_SIZES)) of that component (reflection)."""
    source = Source.get(repo, P_FLOWP)
    names = [n.name for n in source.tree.body if isinstance(n, ast.FunctionDef)]
    flowmod = Source.get(repo, P_FLOW).module
    klass = getattr(flowmod, klass_name)
    if '_flow_value' not in names:
        # the value goes straight from klass.converter(value) into klass(...): exactly two such sites
        gen = find_function(source.tree, ['_generic_condition'])
        sites = [ast.unparse(n) for n in ast.walk(gen) if isinstance(n, ast.Yield)]
        sites = [x[1:-1] if x.startswith('(yield') and x.endswith(')') else x for x in sites]
        if sorted(sites) != sorted(['yield klass(AND | operator, klass.converter(value))',
                                    'yield klass(operator | AND, klass.converter(value))']):
            raise Untranslatable(f'{field}: _generic_condition no longer yields klass(op, klass.converter(value)): {sites}')
        return []
    limit = 1 << (8 * max(klass.VALUE_SIZES))
    st = dict(file=P_FLOWP, path=['_flow_value'], var='number', consts={'limit': limit},
              uses=['number = klass.converter(string)', 'return number', 'limit = 1 << 8 * max(klass.VALUE_SIZES)'],
              must_use=['number = klass.converter(string)'])
    return stage_guards(repo, st, field)


def resource_field(repo, field, klass_name, owner):
    """Resource._value decimal branch + check by reflection that the component's converter is owner.from_string
    (or port_value -> Port.from_string) and that owner does not override the range test."""
    flowsrc = Source.get(repo, P_FLOW)
    klass = getattr(flowsrc.module, klass_name)
    cells = [c.cell_contents for c in (klass.converter.__closure__ or ())]
    from exabgp.protocol.resource import Resource

    if owner == 'port_value':
        if flowsrc.module.port_value not in cells:
            raise Untranslatable(f'{field}: {klass_name}.converter is not converter(port_value, ..)')
        pv = find_function(flowsrc.tree, ['port_value'])
        if 'number = Port.from_string(data)' not in [ast.unparse(n) for n in ast.walk(pv) if isinstance(n, ast.Assign)]:
            raise Untranslatable(f'{field}: port_value no longer calls Port.from_string')
        if [n for n in ast.walk(pv) if isinstance(n, ast.If)]:
            raise Untranslatable(f'{field}: port_value has a test this translator does not know')
        from exabgp.protocol.ip.port import Port

        rcls = Port
        psrc = Source.get(repo, 'protocol/ip/port.py')
        ov = find_function(psrc.tree, ['Port', '_value'])
        body = [ast.unparse(s) for s in ov.body if not (isinstance(s, ast.Expr) and isinstance(s.value, ast.Constant))]
        if body != ['cls._ensure_loaded()', 'return super()._value(string)']:
            raise Untranslatable(f'{field}: Port._value is not the plain super() call: {body}')
    else:
        rcls = getattr(flowsrc.module, owner)
        if not any(getattr(c, '__func__', None) is Resource.from_string.__func__ and getattr(c, '__self__', None) is rcls for c in cells):
            raise Untranslatable(f'{field}: {klass_name}.converter is not converter({owner}.from_string, ..)')
        if rcls._value.__func__ is not Resource._value.__func__:
            raise Untranslatable(f'{field}: {owner} overrides Resource._value')
    st = dict(file=P_RES, path=['Resource', '_value'], var='value', gates=['string.isdigit()'], positive_return=True,
              uses=['value = int(string)', 'value = int(string[2:], 16)', 'return value'], must_use=['value = int(string)'])
    conj = stage_guards(repo, st, field)
    # the function must end in a raise: a decimal token that fails the positive test is refused
    func = find_function(Source.get(repo, P_RES).tree, ['Resource', '_value'])
    if not isinstance(func.body[-1], ast.Raise):
        raise Untranslatable(f'{field}: Resource._value does not end in a raise')
    return conj + flow_component_conjuncts(repo, field, klass_name)


def rd_predicate(repo):
    """route_distinguisher, `asn:number` form: raise guards on number / suffix, and the encoding chain."""
    source = Source.get(repo, P_MPLS)
    func = find_function(source.tree, ['route_distinguisher'])
    where = f'{P_MPLS}:route_distinguisher'
    resolve = make_resolver(source, func)
    assigns = [ast.unparse(n) for n in ast.walk(func) if isinstance(n, ast.Assign)]
    for need in ('suffix = int(data[separator + 1:])', 'number = int(prefix)'):
        if need not in assigns:
            raise Untranslatable(f'rd: {where}: `{need}` gone')
    names = {'number', 'suffix'}
    vmap = {'number': 'n', 'suffix': 's'}
    conj, chain = [], None
    for n in ast.walk(func):
        if not isinstance(n, ast.If) or not mentions(n.test, names):
            continue
        folded = fold(n.test, resolve, where)
        others = {x.id for x in ast.walk(folded) if isinstance(x, ast.Name)} - names
        if others:
            raise Untranslatable(f'rd: {where}:{n.lineno}: test mixes the numbers with {sorted(others)}')
        if is_raise_body(n.body) and not n.orelse:
            conj.append(f'(negb {to_coq(folded, vmap, where)})')
            continue
        if chain is not None and any(n is c for c in chain_nodes):
            continue
        # encoding chain: if a: <assign> elif b: <assign> else: raise
        alts, node, chain_nodes = [], n, []
        while True:
            chain_nodes.append(node)
            alts.append(to_coq(fold(node.test, resolve, where), vmap, where))
            if is_raise_body(node.body):
                raise Untranslatable(f'rd: {where}: unexpected raise inside the encoding chain')
            if len(node.orelse) == 1 and isinstance(node.orelse[0], ast.If):
                node = node.orelse[0]
                continue
            if not is_raise_body(node.orelse):
                raise Untranslatable(f'rd: {where}: the encoding chain does not end in a raise')
            break
        if chain is not None:
            raise Untranslatable(f'rd: {where}: two encoding chains')
        chain = alts
    if chain is None:
        raise Untranslatable(f'rd: {where}: encoding chain not found')
    acc = chain[-1]
    for t in reversed(chain[:-1]):
        acc = f'(orb {t} {acc})'
    return and_all(conj + [acc])


def generate(repo):
    src_root = os.path.realpath(os.path.join(repo, 'src'))
    if src_root not in [os.path.realpath(p) for p in sys.path if p]:
        raise Untranslatable(f'{src_root} is not on sys.path: reflection would read another tree')
    Source.cache.clear()
    lines = ['(* GENERATED by translate/t9_textdomains.py from the parser sources under src/exabgp - do not edit *)',
             'From Coq Require Import ZArith Bool.', 'Open Scope Z_scope.', '']
    failed = []
    try:
        netmask_maximum_check(repo)
    except Untranslatable as exc:
        failed.append(('mask_ipv4/mask_ipv6', str(exc)))
    emitted = []

    def emit(field, body, comment):
        lines.append(f'(* {comment} *)')
        lines.append(f'Definition accept_{field} (v : Z) : bool := {body}.')
        emitted.append(field)

    for field, stages in FIELDS.items():
        if field.startswith('mask_') and failed and failed[0][0].startswith('mask'):
            continue
        try:
            conj = []
            for st in stages:
                for t in stage_guards(repo, st, field):
                    if t not in conj:
                        conj.append(t)
            if field in FLOW_CLASS:
                flowsrc = Source.get(repo, P_FLOW)
                klass = getattr(flowsrc.module, FLOW_CLASS[field])
                cells = [c.cell_contents for c in (klass.converter.__closure__ or ())]
                if getattr(flowsrc.module, FLOW_CONVERTER[field]) not in cells:
                    raise Untranslatable(f'{field}: {FLOW_CLASS[field]}.converter is not converter({FLOW_CONVERTER[field]}, ..)')
                for t in flow_component_conjuncts(repo, field, FLOW_CLASS[field]):
                    if t not in conj:
                        conj.append(t)
            where = ' ; '.join(f'{s["file"]}:{".".join(s["path"])}' for s in stages)
            emit(field, and_all(conj) if conj else 'true', where + ('' if conj else ' - no range test'))
        except Untranslatable as exc:
            failed.append((field, str(exc)))
    for field, (klass_name, owner) in RESOURCE_FIELDS.items():
        try:
            conj = resource_field(repo, field, klass_name, owner)
            emit(field, and_all(conj), f'{P_RES}:Resource._value via {klass_name}.converter')
        except Untranslatable as exc:
            failed.append((field, str(exc)))
    try:
        body = rd_predicate(repo)
        lines.append(f'(* {P_MPLS}:route_distinguisher, <number>:<number> form *)')
        lines.append(f'Definition accept_rd (n s : Z) : bool := {body}.')
        emitted.append('rd')
    except Untranslatable as exc:
        failed.append(('rd', str(exc)))
    lines.append('')
    lines.append('(* fields translated: ' + ' '.join(emitted) + ' *)')
    for f, why in failed:
        lines.append('(* NOT translated: ' + f + ' *)')
    return '\n'.join(lines) + '\n', emitted, failed


def main(repo: str, gen_dir: str) -> None:
    text, emitted, failed = generate(repo)
    write_if_changed(os.path.join(gen_dir, 'Gen_TextDomains.v'), text)
    if failed:
        raise Untranslatable('; '.join(f'{f}: {w}' for f, w in failed))


if __name__ == '__main__':
    main(sys.argv[1], sys.argv[2])
