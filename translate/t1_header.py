"""T1 - header validation of Connection.reader_async / reader, Message constants -> coq/gen/Gen_Header.v

Generated:
  HEADER_LEN, MARKER, INITIAL_SIZE, EXTENDED_SIZE, MESSAGES (CODE.MESSAGES), REGISTERED-independent
  length_ok : Z -> Z -> bool            (Message.Length lambdas + _default_length_validator)
  check_header_async / check_header_sync : (hb : Z -> Z) (marker_ok : bool) (max : Z) -> hres
  read_message_unknown : Z * Z          (code, subcode) raised by Protocol.read_message for msg_id not in MESSAGES
"""

from __future__ import annotations

import ast
import os
import sys

from translate.py2coq import Env, Tr, Untranslatable, dotted, find_function, write_if_changed

CONN = 'src/exabgp/reactor/network/connection.py'
MSG = 'src/exabgp/bgp/message/message.py'
EXT = 'src/exabgp/bgp/message/open/capability/extended.py'
PROTO = 'src/exabgp/reactor/protocol.py'


def class_consts(tree, clsname, wanted):
    out = {}
    for node in ast.walk(tree):
        if isinstance(node, ast.ClassDef) and node.name == clsname:
            for s in node.body:
                tgt = None
                if isinstance(s, ast.Assign) and len(s.targets) == 1:
                    tgt, val = s.targets[0], s.value
                elif isinstance(s, ast.AnnAssign) and s.value is not None:
                    tgt, val = s.target, s.value
                if tgt is not None and isinstance(tgt, ast.Name) and tgt.id in wanted:
                    out[tgt.id] = val
            break
    missing = [w for w in wanted if w not in out]
    if missing:
        raise Untranslatable(f'{clsname}: missing {missing}')
    return out


def const_int(node, what):
    if isinstance(node, ast.Constant) and isinstance(node.value, int) and not isinstance(node.value, bool):
        return node.value
    raise Untranslatable(f'{what} is not an integer literal: {ast.unparse(node)}')


def marker_bytes(node):
    # bytes([0xFF,] * 16)
    try:
        val = eval(compile(ast.Expression(node), '<marker>', 'eval'), {'__builtins__': {}, 'bytes': bytes})
    except Exception as exc:
        raise Untranslatable(f'MARKER not a constant expression: {exc}')
    if not isinstance(val, bytes):
        raise Untranslatable('MARKER is not bytes')
    return list(val)


class TrHeader(Tr):
    """reader_async / reader body -> hres"""

    def __init__(self, env, src, sync):
        super().__init__(env, src)
        self.sync = sync

    def expr(self, node):
        # header[18]
        if isinstance(node, ast.Subscript) and dotted(node.value) == 'header':
            if isinstance(node.slice, ast.Constant) and isinstance(node.slice.value, int):
                return f'(hb {node.slice.value})'
        # int.from_bytes(header[a:b], 'big')
        if isinstance(node, ast.Call) and dotted(node.func) == 'int.from_bytes':
            if (
                len(node.args) == 2
                and isinstance(node.args[1], ast.Constant)
                and node.args[1].value == 'big'
                and isinstance(node.args[0], ast.Subscript)
                and dotted(node.args[0].value) == 'header'
                and isinstance(node.args[0].slice, ast.Slice)
            ):
                sl = node.args[0].slice
                a = const_int(sl.lower, 'slice lower')
                b = const_int(sl.upper, 'slice upper')
                if sl.step is not None or not (0 <= a < b <= 19):
                    self.fail(node, 'slice bounds')
                term = '0'
                for i in range(a, b):
                    term = f'({term} * 256 + hb {i})'
                return term
            self.fail(node, 'int.from_bytes form')
        # validator(length)
        if isinstance(node, ast.Call) and dotted(node.func) == 'validator':
            if len(node.args) != 1:
                self.fail(node, 'validator arity')
            return f'(length_ok msg {self.expr(node.args[0])})'
        return super().expr(node)

    def is_bool(self, node):
        if isinstance(node, ast.Call) and dotted(node.func) == 'validator':
            return True
        if isinstance(node, ast.Compare) and self.is_marker_test(node):
            return True
        return super().is_bool(node)

    def is_marker_test(self, node):
        return (
            isinstance(node, ast.Compare)
            and len(node.ops) == 1
            and isinstance(node.ops[0], ast.NotEq)
            and isinstance(node.left, ast.Subscript)
            and dotted(node.left.value) == 'header'
            and isinstance(node.left.slice, ast.Slice)
            and node.left.slice.lower is None
            and isinstance(node.left.slice.upper, ast.Constant)
            and node.left.slice.upper.value == 16
            and dotted(node.comparators[0]) == 'Message.MARKER'
        )

    def compare(self, whole, op, left, right):
        if self.is_marker_test(whole):
            return '(negb marker_ok)'
        return super().compare(whole, op, left, right)

    def ret_node(self, s: ast.Return) -> str:
        v = s.value
        if not (isinstance(v, ast.Tuple) and len(v.elts) == 5):
            self.fail(s, 'return shape')
        length, msg, header, body, err = v.elts
        if dotted(header) != 'header':
            self.fail(s, 'returned header is not the header read')
        empty_body = isinstance(body, ast.Call) and dotted(body.func) == 'memoryview'
        if isinstance(err, ast.Call) and dotted(err.func) == 'NotifyError':
            if not empty_body:
                self.fail(s, 'error return with a body')
            code = const_int(err.args[0], 'notify code')
            sub = const_int(err.args[1], 'notify subcode')
            if not (isinstance(msg, ast.Constant) and msg.value == 0):
                self.fail(s, 'error return with a message type')
            return f'(HErr {self.expr(length)} {code} {sub})'
        if isinstance(err, ast.Constant) and err.value is None:
            if empty_body:
                return f'(HDone {self.expr(length)} {self.expr(msg)})'
            if dotted(body) == 'body':
                return f'(HBody {self.expr(length)} {self.expr(msg)} number)'
        self.fail(s, 'return shape')

    def block(self, stmts, cont):
        if stmts:
            s = stmts[0]
            if isinstance(s, ast.Return):
                return self.ret_node(s)
            # header = await self._reader_async(Message.HEADER_LEN)
            if isinstance(s, ast.Assign) and dotted(s.targets[0]) == 'header' and not self.sync:
                v = s.value
                ok = (
                    isinstance(v, ast.Await)
                    and isinstance(v.value, ast.Call)
                    and dotted(v.value.func) == 'self._reader_async'
                    and len(v.value.args) == 1
                    and dotted(v.value.args[0]) == 'Message.HEADER_LEN'
                )
                if not ok:
                    self.fail(s, 'header read')
                return self.block(stmts[1:], cont)
            # body = await self._reader_async(number) ; return length, msg, header, body, None
            if isinstance(s, ast.Assign) and dotted(s.targets[0]) == 'body' and not self.sync:
                v = s.value
                ok = (
                    isinstance(v, ast.Await)
                    and isinstance(v.value, ast.Call)
                    and dotted(v.value.func) == 'self._reader_async'
                    and len(v.value.args) == 1
                    and dotted(v.value.args[0]) == 'number'
                )
                if not ok:
                    self.fail(s, 'body read')
                return self.block(stmts[1:], cont)
            if self.sync and isinstance(s, ast.For):
                # for header in self._reader(Message.HEADER_LEN): if not header: yield 0,0,mv,mv,None
                tgt = dotted(s.target)
                it = s.iter
                if not (isinstance(it, ast.Call) and dotted(it.func) == 'self._reader' and len(it.args) == 1):
                    self.fail(s, 'sync read loop')
                arg = dotted(it.args[0])
                if (tgt, arg) not in (('header', 'Message.HEADER_LEN'), ('body', 'number')):
                    self.fail(s, 'sync read loop target/size')
                if not (
                    len(s.body) == 1
                    and isinstance(s.body[0], ast.If)
                    and isinstance(s.body[0].test, ast.UnaryOp)
                    and dotted(s.body[0].test.operand) == tgt
                    and len(s.body[0].body) == 1
                    and isinstance(s.body[0].body[0], ast.Expr)
                    and isinstance(s.body[0].body[0].value, ast.Yield)
                    and not s.body[0].orelse
                    and not s.orelse
                ):
                    self.fail(s, 'sync read loop body')
                return self.block(stmts[1:], cont)
            if self.sync and isinstance(s, ast.Expr) and isinstance(s.value, ast.Yield):
                # `yield <tuple>` followed by `return` (or the end of the function)
                rest = stmts[1:]
                if rest and not (isinstance(rest[0], ast.Return) and rest[0].value is None):
                    self.fail(s, 'yield not followed by return')
                return self.ret_node(ast.Return(value=s.value.value, lineno=s.lineno))
            # validator = Message.Length.get(msg, _default_length_validator)
            if isinstance(s, ast.Assign) and dotted(s.targets[0]) == 'validator':
                v = s.value
                ok = (
                    isinstance(v, ast.Call)
                    and dotted(v.func) == 'Message.Length.get'
                    and [dotted(a) for a in v.args] == ['msg', '_default_length_validator']
                )
                if not ok:
                    self.fail(s, 'validator lookup')
                return self.block(stmts[1:], cont)
        return super().block(stmts, cont)


def lambda_body(tr, node, argname_out):
    if not (isinstance(node, ast.Lambda) and len(node.args.args) == 1):
        raise Untranslatable('Length entry is not a one-argument lambda')
    arg = node.args.args[0].arg
    tr.env.names[arg] = argname_out
    try:
        return tr.cond(node.body)
    finally:
        del tr.env.names[arg]



def _is_cancel(stmt) -> bool:
    return (isinstance(stmt, ast.Expr) and isinstance(stmt.value, ast.Call) and dotted(stmt.value.func) == 'self._cancel_read')


def cancel_sites_harmless(fn) -> bool:
    """every `self._cancel_read()` statement of fn is outside any loop, or followed by break/raise/return"""

    def walk(block, in_loop) -> bool:
        for i, stmt in enumerate(block):
            if _is_cancel(stmt):
                nxt = block[i + 1] if i + 1 < len(block) else None
                if in_loop and not isinstance(nxt, (ast.Break, ast.Raise, ast.Return)):
                    return False
                continue
            if isinstance(stmt, (ast.FunctionDef, ast.AsyncFunctionDef, ast.ClassDef)):
                continue
            loop = in_loop or isinstance(stmt, (ast.While, ast.For, ast.AsyncFor))
            for field in ('body', 'orelse', 'finalbody'):
                sub = getattr(stmt, field, None)
                if isinstance(sub, list) and sub and isinstance(sub[0], ast.stmt):
                    # the else/finally of a loop statement itself is outside that loop
                    if not walk(sub, loop if field == 'body' or not isinstance(stmt, (ast.While, ast.For, ast.AsyncFor)) else in_loop):
                        return False
            for h in getattr(stmt, 'handlers', []) or []:
                if not walk(h.body, in_loop):
                    return False
            for c in getattr(stmt, 'cases', []) or []:
                if not walk(c.body, in_loop):
                    return False
        return True

    # a cancel hidden in an expression (lambda, conditional expression) is not a shape this check knows
    stmts = sum(1 for n in ast.walk(fn) if isinstance(n, ast.Call) and dotted(n.func) == 'self._cancel_read')
    plain = sum(1 for n in ast.walk(fn) if _is_cancel(n))
    if stmts != plain:
        return False
    return walk(fn.body, False)

def generate(repo: str) -> str:
    msg_tree = ast.parse(open(os.path.join(repo, MSG)).read())
    conn_src = open(os.path.join(repo, CONN)).read()
    conn_tree = ast.parse(conn_src)
    ext_tree = ast.parse(open(os.path.join(repo, EXT)).read())
    proto_tree = ast.parse(open(os.path.join(repo, PROTO)).read())

    codes = class_consts(
        msg_tree, '_MessageCode', ['OPEN', 'UPDATE', 'NOTIFICATION', 'KEEPALIVE', 'ROUTE_REFRESH', 'OPERATIONAL', 'NOP']
    )
    code_val = {k: const_int(v, k) for k, v in codes.items()}
    mc = class_consts(msg_tree, 'Message', ['MARKER', 'HEADER_LEN', 'Length'])
    header_len = const_int(mc['HEADER_LEN'], 'HEADER_LEN')
    marker = marker_bytes(mc['MARKER'])
    cc = class_consts(msg_tree, 'CODE', ['MESSAGES'])
    if not isinstance(cc['MESSAGES'], ast.List):
        raise Untranslatable('CODE.MESSAGES is not a list literal')
    messages = []
    for e in cc['MESSAGES'].elts:
        if not (isinstance(e, ast.Name) and e.id in code_val):
            raise Untranslatable('CODE.MESSAGES element')
        messages.append(code_val[e.id])
    ec = class_consts(ext_tree, 'ExtendedMessage', ['INITIAL_SIZE', 'EXTENDED_SIZE'])
    initial = const_int(ec['INITIAL_SIZE'], 'INITIAL_SIZE')
    extended = const_int(ec['EXTENDED_SIZE'], 'EXTENDED_SIZE')

    # MIN_BGP_MESSAGE_LENGTH and _default_length_validator
    min_len = None
    for node in conn_tree.body:
        if isinstance(node, ast.Assign) and dotted(node.targets[0]) == 'MIN_BGP_MESSAGE_LENGTH':
            min_len = const_int(node.value, 'MIN_BGP_MESSAGE_LENGTH')
    if min_len is None:
        raise Untranslatable('MIN_BGP_MESSAGE_LENGTH not found')

    names = {
        'Message.HEADER_LEN': str(header_len),
        'MIN_BGP_MESSAGE_LENGTH': str(min_len),
        'self.msg_size': 'max',
        'msg': 'msg',
        'length': 'length',
        'number': 'number',
    }
    env = Env(names=names, skip_stmt=lambda n: isinstance(n, ast.Assign) and dotted(n.targets[0]) == 'report')

    # length_ok
    tr0 = Tr(env, MSG)
    if not isinstance(mc['Length'], ast.Dict):
        raise Untranslatable('Message.Length is not a dict literal')
    arms = []
    for k, v in zip(mc['Length'].keys, mc['Length'].values):
        kd = dotted(k)
        if kd is None or not kd.startswith('CODE.') or kd[5:] not in code_val:
            raise Untranslatable(f'Message.Length key {ast.unparse(k)}')
        arms.append((code_val[kd[5:]], lambda_body(tr0, v, 'len')))
    fdef = find_function(conn_tree, ['_default_length_validator'])
    env.names['length'] = 'len'
    default_body = Tr(env, CONN).block(fdef.body, None)
    env.names['length'] = 'length'
    length_ok = default_body
    for code, body in reversed(arms):
        length_ok = f'if (ty =? {code}) then {body} else ({length_ok})'

    bodies = {}
    for name, sync in (('reader_async', False), ('reader', True)):
        f = find_function(conn_tree, ['Connection', name])
        bodies[name] = TrHeader(env, CONN, sync).block(f.body, None)

    # Protocol.read_message: `if msg_id not in Message.CODE.MESSAGES: raise Notify(c, s, ...)`
    f = find_function(proto_tree, ['Protocol', 'read_message'])
    unknown = None
    for s in ast.walk(f):
        if (
            isinstance(s, ast.If)
            and isinstance(s.test, ast.Compare)
            and len(s.test.ops) == 1
            and isinstance(s.test.ops[0], ast.NotIn)
            and dotted(s.test.left) == 'msg_id'
            and dotted(s.test.comparators[0]) == 'Message.CODE.MESSAGES'
        ):
            r = s.body[0]
            if isinstance(r, ast.Raise) and isinstance(r.exc, ast.Call) and dotted(r.exc.func) == 'Notify':
                unknown = (const_int(r.exc.args[0], 'code'), const_int(r.exc.args[1], 'subcode'))
    if unknown is None:
        raise Untranslatable('Protocol.read_message: unknown-type test not found')

    # Message.unpack: `raise Notify(c, s, ...)` reached when the type is not registered
    f = find_function(msg_tree, ['Message', 'unpack'])
    unpack_unknown = None
    last = f.body[-1]
    if isinstance(last, ast.Raise) and isinstance(last.exc, ast.Call) and dotted(last.exc.func) == 'Notify':
        unpack_unknown = (const_int(last.exc.args[0], 'code'), const_int(last.exc.args[1], 'subcode'))
    first_if = [s for s in f.body if isinstance(s, ast.If)]
    if unpack_unknown is None or len(first_if) != 1 or ast.unparse(first_if[0].test) != 'message in cls.registered_message':
        raise Untranslatable('Message.unpack: shape changed')
    # import-time reflection: which type codes have a registered decoder
    import importlib

    mod = importlib.import_module('exabgp.reactor.protocol') and importlib.import_module('exabgp.bgp.message')
    registered = sorted(int(k) for k in mod.Message.registered_message)

    # Peer._main: how the established loop reads.  The harness drives Peer._read_message_or_nop when it
    # exists and the inline `wait_for(self.proto.read_message(), timeout=0.1)` otherwise; anything else is
    # a read step this check does not know how to drive
    peer_tree = ast.parse(open(os.path.join(repo, 'src/exabgp/reactor/peer/peer.py')).read())
    f_main = find_function(peer_tree, ['Peer', '_main'])
    calls = [dotted(n.func) for n in ast.walk(f_main) if isinstance(n, ast.Call)]
    has_method = any(isinstance(n, (ast.FunctionDef, ast.AsyncFunctionDef)) and n.name == '_read_message_or_nop' for n in ast.walk(peer_tree))
    if has_method:
        if 'self._read_message_or_nop' not in calls or 'self.proto.read_message' in calls:
            raise Untranslatable('Peer._main does not read through _read_message_or_nop only')
        read_step = 1
        f_step = find_function(peer_tree, ['Peer', '_read_message_or_nop'])
        step_calls = [dotted(n.func) for n in ast.walk(f_step) if isinstance(n, ast.Call)]
        if 'self.proto.read_message' not in step_calls:
            raise Untranslatable('Peer._read_message_or_nop does not call self.proto.read_message')
        # the pending read survives the 100 ms wait: asyncio.wait on a stored task, never wait_for / cancel
        cancels = [c for c in step_calls if c == 'asyncio.wait_for' or c.endswith('.cancel')]
        if cancels:
            read_kept = False
        elif 'asyncio.wait' in step_calls and 'asyncio.ensure_future' in step_calls:
            read_kept = True
            # ... and nothing else drops it while the session goes on: every `self._cancel_read()` of the
            # class either sits outside the loops of its function (the `finally` of _main) or is followed, in
            # its block, by break / raise / return (the session is ending)
            for fn in ast.walk(peer_tree):
                if not isinstance(fn, (ast.FunctionDef, ast.AsyncFunctionDef)) or fn.name == '_cancel_read':
                    continue
                if not cancel_sites_harmless(fn):
                    read_kept = False
        else:
            raise Untranslatable('Peer._read_message_or_nop: unknown way of waiting for the read')
    else:
        if 'asyncio.wait_for' not in calls or 'self.proto.read_message' not in calls:
            raise Untranslatable('Peer._main: unknown read step')
        read_step = 0
        read_kept = False

    out = []
    out.append('(* GENERATED by translate/t1_header.py - do not edit *)')
    out.append('From Coq Require Import ZArith Bool List.')
    out.append('Import ListNotations.')
    out.append('Open Scope Z_scope.')
    out.append(f'Definition HEADER_LEN : Z := {header_len}.')
    out.append('Definition MARKER : list Z := [' + '; '.join(str(b) for b in marker) + '].')
    out.append(f'Definition INITIAL_SIZE : Z := {initial}.')
    out.append(f'Definition EXTENDED_SIZE : Z := {extended}.')
    out.append('Definition MESSAGES : list Z := [' + '; '.join(str(m) for m in messages) + '].')
    out.append(f'Definition MAIN_READ_STEP : Z := {read_step}.  (* 1: Peer._read_message_or_nop, 0: inline wait_for *)')
    out.append(f'Definition READ_KEPT : bool := {"true" if read_kept else "false"}.  (* the read survives the 100 ms wait of Peer._main *)')
    out.append(f'Definition UNKNOWN_TYPE_NOTIFY : Z * Z := ({unknown[0]}, {unknown[1]}).')
    out.append('Definition REGISTERED : list Z := [' + '; '.join(str(m) for m in registered) + '].')
    out.append(f'Definition UNPACK_UNKNOWN_NOTIFY : Z * Z := ({unpack_unknown[0]}, {unpack_unknown[1]}).')
    out.append('Inductive hres := HErr (len code sub : Z) | HDone (len msg : Z) | HBody (len msg number : Z).')
    out.append('Definition length_ok (ty len : Z) : bool :=')
    out.append(length_ok + '.')
    for name, fn in (('reader_async', 'check_header_async'), ('reader', 'check_header_sync')):
        out.append(f'Definition {fn} (hb : Z -> Z) (marker_ok : bool) (max : Z) : hres :=')
        out.append(bodies[name] + '.')
    return '\n'.join(out) + '\n'


def main(repo: str, gen_dir: str) -> None:
    write_if_changed(os.path.join(gen_dir, 'Gen_Header.v'), generate(repo))


if __name__ == '__main__':
    main(sys.argv[1], sys.argv[2])
