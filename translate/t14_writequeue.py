"""T14 - the put-back discipline of the API write queue -> coq/gen/Gen_WriteQueue.v

Read from reactor/api/processes.py by python `ast` (nothing is imported): inside `Processes.flush_write_queue`
  * BATCH_SIZE                       an integer constant                              -> BATCH
  * the item is taken with           `data = queue.popleft()`  (exactly once)
  * after a partial write            `queue.appendleft(data[written:])` (front) or `queue.append(data[written:])` (back)
                                                                                     -> PARTIAL_FRONT
  * after EAGAIN / EWOULDBLOCK       `queue.appendleft(data)` (front) or `queue.append(data)` (back)
                                                                                     -> AGAIN_FRONT
and in `Processes.write` the async branch must enqueue with `self._write_queue[process].append(data)`.
Model_WriteQueue.drain is written over these constants, so the order theorem is proved about the discipline the
tree has; any other shape raises Untranslatable (fail closed).
"""

from __future__ import annotations

import ast
import os

from translate.py2coq import Untranslatable, write_if_changed

PROCESSES = 'src/exabgp/reactor/api/processes.py'


def _queue_calls(node):
    """calls <something>.{popleft,pop,append,appendleft,extend,extendleft,insert,rotate,reverse,clear}(...) on the name `queue`"""
    out = []
    for n in ast.walk(node):
        if isinstance(n, ast.Call) and isinstance(n.func, ast.Attribute) and isinstance(n.func.value, ast.Name) \
                and n.func.value.id == 'queue':
            out.append(n)
    return out


def _is_name(e, name):
    return isinstance(e, ast.Name) and e.id == name


def main(repo, gen):
    with open(os.path.join(repo, PROCESSES)) as f:
        tree = ast.parse(f.read())
    cls = next((n for n in tree.body if isinstance(n, ast.ClassDef) and n.name == 'Processes'), None)
    if cls is None:
        raise Untranslatable(f'{PROCESSES}: class Processes not found')
    fn = next((n for n in cls.body if isinstance(n, ast.AsyncFunctionDef) and n.name == 'flush_write_queue'), None)
    wr = next((n for n in cls.body if isinstance(n, ast.FunctionDef) and n.name == 'write'), None)
    if fn is None or wr is None:
        raise Untranslatable(f'{PROCESSES}: flush_write_queue / write not found')

    batch = None
    for n in ast.walk(fn):
        if isinstance(n, ast.Assign) and len(n.targets) == 1 and _is_name(n.targets[0], 'BATCH_SIZE'):
            if not (isinstance(n.value, ast.Constant) and isinstance(n.value.value, int) and 0 < n.value.value <= 1000):
                raise Untranslatable('flush_write_queue: BATCH_SIZE is not a small integer constant')
            if batch is not None:
                raise Untranslatable('flush_write_queue: BATCH_SIZE assigned twice')
            batch = n.value.value
    if batch is None:
        raise Untranslatable('flush_write_queue: BATCH_SIZE not found')

    calls = _queue_calls(fn)
    kinds = sorted(c.func.attr for c in calls)
    takes = [c for c in calls if c.func.attr == 'popleft']
    if len(takes) != 1 or takes[0].args or takes[0].keywords:
        raise Untranslatable(f'flush_write_queue: the item is not taken by exactly one queue.popleft(): {kinds}')
    puts = [c for c in calls if c.func.attr != 'popleft']
    if len(puts) != 2 or any(c.func.attr not in ('append', 'appendleft') or len(c.args) != 1 or c.keywords for c in puts):
        raise Untranslatable(f'flush_write_queue: expected two put-backs (append / appendleft), found {kinds}')
    partial = [c for c in puts if isinstance(c.args[0], ast.Subscript)]
    again = [c for c in puts if _is_name(c.args[0], 'data')]
    if len(partial) != 1 or len(again) != 1:
        raise Untranslatable('flush_write_queue: put-backs are not data[written:] (partial write) and data (EAGAIN)')
    sub = partial[0].args[0]
    if not (_is_name(sub.value, 'data') and isinstance(sub.slice, ast.Slice) and _is_name(sub.slice.lower, 'written')
            and sub.slice.upper is None and sub.slice.step is None):
        raise Untranslatable('flush_write_queue: the partial-write put-back is not data[written:]')
    # the EAGAIN put-back sits in an except handler, the partial one in the try body
    handlers = [h for t in ast.walk(fn) if isinstance(t, ast.Try) for h in t.handlers]
    in_handler = any(again[0] in list(ast.walk(h)) for h in handlers)
    partial_in_handler = any(partial[0] in list(ast.walk(h)) for h in handlers)
    if not in_handler or partial_in_handler:
        raise Untranslatable('flush_write_queue: put-backs are not where expected (try body / except OSError)')

    enq = [n for n in ast.walk(wr) if isinstance(n, ast.Call) and isinstance(n.func, ast.Attribute)
           and isinstance(n.func.value, ast.Subscript) and isinstance(n.func.value.value, ast.Attribute)
           and n.func.value.value.attr == '_write_queue']
    if len(enq) != 1 or enq[0].func.attr != 'append' or len(enq[0].args) != 1 or not _is_name(enq[0].args[0], 'data'):
        raise Untranslatable('Processes.write: the async branch does not enqueue with self._write_queue[process].append(data)')

    b = lambda x: 'true' if x else 'false'  # noqa: E731
    text = f"""(* GENERATED by translate/t14_writequeue.py from {PROCESSES} - do not edit *)
Definition BATCH : nat := {batch}.
(* after a partial write the remainder goes back: in front (appendleft) / at the end (append) *)
Definition PARTIAL_FRONT : bool := {b(partial[0].func.attr == 'appendleft')}.
(* after EAGAIN the whole item goes back: in front (appendleft) / at the end (append) *)
Definition AGAIN_FRONT : bool := {b(again[0].func.attr == 'appendleft')}.
"""
    write_if_changed(os.path.join(gen, 'Gen_WriteQueue.v'), text)


if __name__ == '__main__':
    import sys

    main(sys.argv[1] if len(sys.argv) > 1 else '/repo', sys.argv[2] if len(sys.argv) > 2 else '/verif/coq/gen')
