"""T3 - bgp/timer.py (ReceiveTimer, SendTimer), open/holdtime.py (HoldTime) and the places of
reactor/peer/peer.py, reactor/keepalive.py, reactor/protocol.py that call them -> coq/gen/Gen_Timer.v

Generated (everything scalar is Z, `now` = int(time.time()) is an explicit parameter, the object's
fields are an explicit record in / record out, `raise Notify(c, s, ..)` is the outcome `Raise c s`,
logging calls and locals that only feed logging calls are dropped):

  HoldTime_MIN, HoldTime_MAX, HoldTime_KEEPALIVE_DIVISOR, holdtime_keepalive      (HoldTime.keepalive)
  KeepAlive_TYPE, NOP_TYPE, NOP_SCHEDULING, MESSAGE_SCHEDULING                     (class constants)
  rtimer_init, check_ka_timer, check_ka                                            (ReceiveTimer)
  stimer_init, need_ka                                                             (SendTimer)
  established_code/_subcode      the (code, subcode) given to ReceiveTimer(...) in Peer._establish
  openwait_code/_subcode         the Notify raised by Peer._read_open on asyncio.TimeoutError
  read_open_not_open_code/_subcode   the Notify of Protocol.read_open for a first message that is not an OPEN
  main_read_timeout_ms           the timeout of wait_for(read_message) in Peer._main

Checked fail-closed but not translated (the hand model Model_Timer.main_iter relies on it):
  * Peer._main: inside `while not self._teardown`, the statements `try: message = await
    asyncio.wait_for(self.proto.read_message(), timeout=..) except asyncio.TimeoutError: message = _NOP ..`,
    `self.recv_timer.check_ka(message)`, `await send_ka.send_if_needed()` are consecutive, in this order,
    and `send_ka = KA(self.proto.connection.session, self.proto)` precedes the loop;
  * KA.__init__ builds SendTimer(session, proto.negotiated.holdtime); KA.send_if_needed is
    `if not self.send_timer.need_ka(): return False` followed by `await self._proto.new_keepalive()`;
  * Peer._establish: `self.recv_timer = ReceiveTimer(<session>, self.proto.negotiated.holdtime, c, s)`
    then `await self._send_ka()`, `await self._read_ka()`; Peer._read_ka reads a KEEPALIVE and calls
    `self.recv_timer.check_ka_timer(message)` (result unused);
  * Peer._read_open: `wait = getenv().bgp.openwait`, `asyncio.wait_for(self.proto.read_open(..), timeout=wait)`.
"""

from __future__ import annotations

import ast
import os
import sys

from translate.py2coq import Env, Tr, Untranslatable, dotted, find_function, write_if_changed

TIMER = 'src/exabgp/bgp/timer.py'
HOLD = 'src/exabgp/bgp/message/open/holdtime.py'
MSG = 'src/exabgp/bgp/message/message.py'
KAMSG = 'src/exabgp/bgp/message/keepalive.py'
SCHED = 'src/exabgp/bgp/message/scheduling.py'
PEER = 'src/exabgp/reactor/peer/peer.py'
KA = 'src/exabgp/reactor/keepalive.py'
PROTO = 'src/exabgp/reactor/protocol.py'

RFIELDS = ['holdtime', 'last_print', 'last_read', 'code', 'subcode', 'single']
SFIELDS = ['keepalive', 'last_print', 'last_sent']


def parse(repo, rel):
    with open(os.path.join(repo, rel)) as f:
        return ast.parse(f.read())


def class_node(tree, name, rel):
    for node in ast.walk(tree):
        if isinstance(node, ast.ClassDef) and node.name == name:
            return node
    raise Untranslatable(f'{rel}: class {name} not found')


def class_attr(cls, name, rel):
    """the value expression of a class-level `name = ...` / `name: T = ...` (exactly one)"""
    found = []
    for s in cls.body:
        if isinstance(s, ast.Assign) and len(s.targets) == 1 and isinstance(s.targets[0], ast.Name) and s.targets[0].id == name:
            found.append(s.value)
        elif isinstance(s, ast.AnnAssign) and isinstance(s.target, ast.Name) and s.target.id == name and s.value is not None:
            found.append(s.value)
    if len(found) != 1:
        raise Untranslatable(f'{rel}: {cls.name}.{name} defined {len(found)} times')
    return found[0]


def int_const(node, what):
    if isinstance(node, ast.Constant) and isinstance(node.value, int) and not isinstance(node.value, bool):
        return node.value
    raise Untranslatable(f'{what} is not an integer literal: {ast.unparse(node)}')


def type_byte(cls, codes, rel):
    """TYPE = bytes([Message.CODE.X]) -> the integer code of X"""
    v = class_attr(cls, 'TYPE', rel)
    ok = (
        isinstance(v, ast.Call) and dotted(v.func) == 'bytes' and len(v.args) == 1 and not v.keywords
        and isinstance(v.args[0], ast.List) and len(v.args[0].elts) == 1
    )
    d = dotted(v.args[0].elts[0]) if ok else None
    if not d or not d.startswith('Message.CODE.') or d.split('.')[-1] not in codes:
        raise Untranslatable(f'{rel}: {cls.name}.TYPE is not bytes([Message.CODE.<name>]): {ast.unparse(v)}')
    return codes[d.split('.')[-1]]


def only_logging_locals(fdef):
    """plain local names all of whose reads are inside `log.<level>(...)` call statements"""
    assigned, reads_out = set(), set()
    log_calls = []
    for node in ast.walk(fdef):
        if isinstance(node, ast.Expr) and isinstance(node.value, ast.Call):
            d = dotted(node.value.func)
            if d is not None and d.startswith('log.'):
                log_calls.append(node)
    inside = set()
    for lc in log_calls:
        for sub in ast.walk(lc):
            inside.add(id(sub))
    for node in ast.walk(fdef):
        if isinstance(node, ast.Name):
            if isinstance(node.ctx, ast.Store):
                assigned.add(node.id)
            elif id(node) not in inside:
                reads_out.add(node.id)
    return {n for n in assigned if n not in reads_out}


def is_now_call(node):
    """int(time.time())"""
    return (
        isinstance(node, ast.Call) and dotted(node.func) == 'int' and len(node.args) == 1 and not node.keywords
        and isinstance(node.args[0], ast.Call) and dotted(node.args[0].func) == 'time.time'
        and not node.args[0].args and not node.args[0].keywords
    )


class TrTimer(Tr):
    def __init__(self, env, src, drop):
        super().__init__(env, src)
        self.drop = drop  # locals that only feed logging

    def expr(self, node):
        if is_now_call(node):
            return 'now'
        return super().expr(node)


def notify_args(tr, node):
    """raise Notify(c, s[, text]) -> (coq c, coq s)"""
    exc = node.exc
    if node.cause is not None and not (isinstance(node.cause, ast.Constant) and node.cause.value is None):
        tr.fail(node, 'raise ... from <something>')
    if not (isinstance(exc, ast.Call) and dotted(exc.func) == 'Notify' and 2 <= len(exc.args) <= 3 and not exc.keywords):
        tr.fail(node, 'only `raise Notify(code, subcode[, text])` is modelled')
    return tr.expr(exc.args[0]), tr.expr(exc.args[1])


def method_env(fields, prefix, mk, extra_names, drop, result_of_value, raise_ok=True):
    names = {f'self.{f}': f for f in fields}
    names.update({f: f for f in ()})
    names.update(extra_names)
    state = f'({mk} ' + ' '.join(fields) + ')'

    def skip(node):
        # self.session / self.message are only used for logging / the NOTIFICATION text
        if isinstance(node, ast.Assign) and len(node.targets) == 1:
            d = dotted(node.targets[0])
            if d in ('self.session', 'self.message'):
                return True
            if d in drop:
                return True
        return False

    def raise_term(tr, node):
        if not raise_ok:
            tr.fail(node, 'raise in a function modelled as total')
        c, s = notify_args(tr, node)
        return f'({state}, Raise {c} {s})'

    env = Env(
        names=names,
        calls={},
        effects={'log.debug': lambda tr, n: [], 'log.info': lambda tr, n: []},
        raise_term=raise_term,
        ret=lambda tr, vals: f'({state}, {result_of_value(vals)})',
        skip_stmt=skip,
        bools={'self.single', 'single'},
    )
    return env, state


def unpack_fields(fields, prefix):
    return ''.join(f'let {f} := {prefix}{f} self in\n' for f in fields)


def args_of(fdef):
    a = fdef.args
    if a.vararg or a.kwarg or a.kwonlyargs or a.posonlyargs:
        raise Untranslatable(f'{fdef.name}: unexpected argument kinds')
    return [x.arg for x in a.args]


# --------------------------------------------------------------------------------- shape checks


def stmt_is(node, text):
    return ast.unparse(node).strip() == text


def check_main_loop(tree):
    f = find_function(tree, ['Peer', '_main'])
    loop = None
    ka_assign_seen = False
    for node in ast.walk(f):
        if isinstance(node, ast.While) and stmt_is(node.test, 'not self._teardown'):
            if loop is not None:
                raise Untranslatable(f'{PEER}: two `while not self._teardown` loops in _main')
            loop = node
    if loop is None:
        raise Untranslatable(f'{PEER}: `while not self._teardown` not found in _main')
    # send_ka = KA(...) before the loop, exactly once in the function
    kas = [n for n in ast.walk(f) if isinstance(n, ast.Assign) and dotted(n.targets[0]) == 'send_ka']
    if len(kas) != 1 or not stmt_is(kas[0], 'send_ka = KA(self.proto.connection.session, self.proto)') or kas[0].lineno >= loop.lineno:
        raise Untranslatable(f'{PEER}: send_ka = KA(self.proto.connection.session, self.proto) before the loop not found')
    ka_assign_seen = True
    body = loop.body
    # two accepted shapes of the read step:
    #  (new) message = await self._read_message_or_nop() ; if message is _NOP: await asyncio.sleep(0)
    #        with the 100 ms wait inside Peer._read_message_or_nop (a read kept across timeouts)
    #  (old) try: message = await asyncio.wait_for(self.proto.read_message(), timeout=c) except TimeoutError: message = _NOP
    new_idx = [i for i, s in enumerate(body) if stmt_is(s, 'message = await self._read_message_or_nop()')]
    if new_idx:
        if len(new_idx) != 1:
            raise Untranslatable(f'{PEER}: the main loop reads more than once')
        i = new_idx[0]
        if not (len(body) > i + 1 and stmt_is(body[i + 1], 'if message is _NOP:\n    await asyncio.sleep(0)')):
            raise Untranslatable(f'{PEER}: unexpected statement after the read step')
        g = find_function(tree, ['Peer', '_read_message_or_nop'])
        waits = [n for n in ast.walk(g) if isinstance(n, ast.Call) and dotted(n.func) == 'asyncio.wait']
        reads = [n for n in ast.walk(g) if isinstance(n, ast.Call) and dotted(n.func) == 'self.proto.read_message']
        nops = [n for n in ast.walk(g) if isinstance(n, ast.Return) and n.value is not None and dotted(n.value) == '_NOP']
        if len(waits) != 1 or len(reads) != 1 or len(nops) != 1 or len(waits[0].keywords) != 1 or waits[0].keywords[0].arg != 'timeout':
            raise Untranslatable(f'{PEER}: _read_message_or_nop is not one asyncio.wait(..., timeout=c) around one read_message() returning _NOP on timeout')
        tv = waits[0].keywords[0].value
        if not (isinstance(tv, ast.Constant) and isinstance(tv.value, (int, float))):
            raise Untranslatable(f'{PEER}: _read_message_or_nop timeout is not a constant')
        timeout_ms = round(tv.value * 1000)
        body = body[:i + 1] + body[i + 2:]   # drop the `if message is _NOP` statement for the adjacency test below
    else:
        idx = [i for i, s in enumerate(body) if isinstance(s, ast.Try)]
        idx = [i for i in idx if any('read_message' in ast.unparse(x) for x in body[i].body)]
        if len(idx) != 1:
            raise Untranslatable(f'{PEER}: the read_message try-block of the main loop was not found exactly once')
        i = idx[0]
        tr_ = body[i]
        if len(tr_.body) != 1 or not isinstance(tr_.body[0], ast.Assign) or dotted(tr_.body[0].targets[0]) != 'message':
            raise Untranslatable(f'{PEER}: main loop read is not a single `message = ...`')
        call = tr_.body[0].value
        ok = (
            isinstance(call, ast.Await) and isinstance(call.value, ast.Call) and dotted(call.value.func) == 'asyncio.wait_for'
            and len(call.value.args) == 1 and stmt_is(call.value.args[0], 'self.proto.read_message()')
            and len(call.value.keywords) == 1 and call.value.keywords[0].arg == 'timeout'
            and isinstance(call.value.keywords[0].value, ast.Constant)
            and isinstance(call.value.keywords[0].value.value, (int, float))
        )
        if not ok:
            raise Untranslatable(f'{PEER}: main loop read is not wait_for(self.proto.read_message(), timeout=<const>): {ast.unparse(call)}')
        timeout_ms = round(call.value.keywords[0].value.value * 1000)
        if tr_.orelse or tr_.finalbody or len(tr_.handlers) != 1:
            raise Untranslatable(f'{PEER}: main loop read has unexpected handlers')
        h = tr_.handlers[0]
        if dotted(h.type) != 'asyncio.TimeoutError' or not h.body or not stmt_is(h.body[0], 'message = _NOP'):
            raise Untranslatable(f'{PEER}: on timeout the main loop does not set message = _NOP first')
        for s in h.body[1:]:
            if not stmt_is(s, 'await asyncio.sleep(0)'):
                raise Untranslatable(f'{PEER}: unexpected statement in the timeout handler: {ast.unparse(s)}')
    if len(body) < i + 3 or not stmt_is(body[i + 1], 'self.recv_timer.check_ka(message)') or not stmt_is(
        body[i + 2], 'await send_ka.send_if_needed()'
    ):
        raise Untranslatable(f'{PEER}: read / self.recv_timer.check_ka(message) / await send_ka.send_if_needed() are not consecutive')
    # `message` must not be re-assigned between the read and check_ka (they are adjacent) and check_ka /
    # send_if_needed must not appear anywhere else in the loop
    text = [ast.unparse(s) for k, s in enumerate(body) if k not in (i + 1, i + 2)]
    if any('check_ka' in t or 'send_if_needed' in t or 'need_ka' in t for t in text):
        raise Untranslatable(f'{PEER}: timers are consulted at another place of the main loop')
    return timeout_ms, ka_assign_seen


def check_ka_class(tree):
    init = find_function(tree, ['KA', '__init__'])
    if not any(stmt_is(s, 'self.send_timer: SendTimer = SendTimer(session, proto.negotiated.holdtime)') for s in init.body):
        raise Untranslatable(f'{KA}: KA.__init__ does not build SendTimer(session, proto.negotiated.holdtime)')
    f = find_function(tree, ['KA', 'send_if_needed'])
    body = [s for s in f.body if not (isinstance(s, ast.Expr) and isinstance(s.value, ast.Constant))]
    if len(body) != 2 or not stmt_is(body[0], 'if not self.send_timer.need_ka():\n    return False'):
        raise Untranslatable(f'{KA}: send_if_needed does not start with `if not self.send_timer.need_ka(): return False`')
    t = body[1]
    if not (isinstance(t, ast.Try) and len(t.body) == 2 and stmt_is(t.body[0], 'await self._proto.new_keepalive()') and stmt_is(t.body[1], 'return True')):
        raise Untranslatable(f'{KA}: send_if_needed does not send with `await self._proto.new_keepalive()`')


def find_raise_notify(stmts, where):
    for s in stmts:
        if isinstance(s, ast.Raise) and isinstance(s.exc, ast.Call) and dotted(s.exc.func) == 'Notify' and len(s.exc.args) >= 2:
            return int_const(s.exc.args[0], where + ' code'), int_const(s.exc.args[1], where + ' subcode')
    raise Untranslatable(f'{where}: raise Notify(code, subcode, ..) not found')


def check_establish(tree):
    f = find_function(tree, ['Peer', '_establish'])
    flat = []
    for node in ast.walk(f):
        if isinstance(node, (ast.AsyncWith, ast.With)):
            flat = node.body
            break
    if not flat:
        flat = f.body
    idx = [i for i, s in enumerate(flat) if isinstance(s, ast.Assign) and dotted(s.targets[0]) == 'self.recv_timer']
    if len(idx) != 1:
        raise Untranslatable(f'{PEER}: self.recv_timer assigned {len(idx)} times in _establish')
    i = idx[0]
    call = flat[i].value
    if not (
        isinstance(call, ast.Call) and dotted(call.func) == 'ReceiveTimer' and len(call.args) == 4 and not call.keywords
        and stmt_is(call.args[1], 'self.proto.negotiated.holdtime')
    ):
        raise Untranslatable(f'{PEER}: recv_timer is not ReceiveTimer(<session>, self.proto.negotiated.holdtime, code, subcode)')
    code, sub = int_const(call.args[2], 'ReceiveTimer code'), int_const(call.args[3], 'ReceiveTimer subcode')
    if len(flat) < i + 3 or not stmt_is(flat[i + 1], 'await self._send_ka()') or not stmt_is(flat[i + 2], 'await self._read_ka()'):
        raise Untranslatable(f'{PEER}: ReceiveTimer creation is not followed by _send_ka / _read_ka')
    rk = find_function(tree, ['Peer', '_read_ka'])
    body = [s for s in rk.body if not isinstance(s, ast.Assert) and not (isinstance(s, ast.Expr) and isinstance(s.value, ast.Constant))]
    old_shape = len(body) == 2 and stmt_is(body[0], 'message = await self.proto.read_keepalive()') and stmt_is(
        body[1], 'self.recv_timer.check_ka_timer(message)'
    )
    # with the OpenConfirm hold timer: holdtime = int(self.proto.negotiated.holdtime);
    # try: message = await asyncio.wait_for(self.proto.read_keepalive(), timeout=holdtime or None)
    # except asyncio.TimeoutError: raise Notify(4, 0, ..) ; self.recv_timer.check_ka_timer(message)
    new_shape = (
        len(body) == 3
        and stmt_is(body[0], 'holdtime = int(self.proto.negotiated.holdtime)')
        and isinstance(body[1], ast.Try)
        and len(body[1].body) == 1
        and stmt_is(body[1].body[0], 'message = await asyncio.wait_for(self.proto.read_keepalive(), timeout=holdtime or None)')
        and len(body[1].handlers) == 1
        and dotted(body[1].handlers[0].type) == 'asyncio.TimeoutError'
        and find_raise_notify(body[1].handlers[0].body, f'{PEER}: _read_ka timeout') == (4, 0)
        and not body[1].orelse and not body[1].finalbody
        and stmt_is(body[2], 'self.recv_timer.check_ka_timer(message)')
    )
    if not (old_shape or new_shape):
        raise Untranslatable(f'{PEER}: _read_ka is not read_keepalive [under the hold timer, 4/0] + recv_timer.check_ka_timer(message)')
    return code, sub


def check_read_open(tree, proto_tree):
    f = find_function(tree, ['Peer', '_read_open'])
    if not any(stmt_is(s, 'wait = getenv().bgp.openwait') for s in f.body):
        raise Untranslatable(f'{PEER}: _read_open does not take its wait from getenv().bgp.openwait')
    tries = [s for s in f.body if isinstance(s, ast.Try)]
    if len(tries) != 1:
        raise Untranslatable(f'{PEER}: _read_open try-block not found')
    t = tries[0]
    src = ast.unparse(t.body[0]) if t.body else ''
    if not (
        len(t.body) == 2 and src.startswith('message = await asyncio.wait_for(self.proto.read_open(') and src.endswith('timeout=wait)')
        and stmt_is(t.body[1], 'return message')
    ):
        raise Untranslatable(f'{PEER}: _read_open is not wait_for(self.proto.read_open(..), timeout=wait)')
    if len(t.handlers) != 1 or dotted(t.handlers[0].type) != 'asyncio.TimeoutError':
        raise Untranslatable(f'{PEER}: _read_open handler is not asyncio.TimeoutError')
    ow = find_raise_notify(t.handlers[0].body, f'{PEER}: _read_open timeout')
    ro = find_function(proto_tree, ['Protocol', 'read_open'])
    notopen = None
    for s in ro.body:
        if isinstance(s, ast.If) and stmt_is(s.test, 'received_open.TYPE != Open.TYPE'):
            notopen = find_raise_notify(s.body, f'{PROTO}: read_open')
    if notopen is None:
        raise Untranslatable(f'{PROTO}: read_open does not test received_open.TYPE != Open.TYPE')
    return ow, notopen


# --------------------------------------------------------------------------------- generation


def generate(repo: str) -> str:
    timer = parse(repo, TIMER)
    hold = parse(repo, HOLD)
    msg = parse(repo, MSG)
    kamsg = parse(repo, KAMSG)
    sched = parse(repo, SCHED)
    peer = parse(repo, PEER)
    ka = parse(repo, KA)
    proto = parse(repo, PROTO)

    # ---- constants
    ht = class_node(hold, 'HoldTime', HOLD)
    hmin = int_const(class_attr(ht, 'MIN', HOLD), 'HoldTime.MIN')
    hmax = int_const(class_attr(ht, 'MAX', HOLD), 'HoldTime.MAX')
    hdiv = int_const(class_attr(ht, 'KEEPALIVE_DIVISOR', HOLD), 'HoldTime.KEEPALIVE_DIVISOR')
    if hdiv <= 0:
        raise Untranslatable('HoldTime.KEEPALIVE_DIVISOR must be positive for int(a / b) = a / b')
    mc = class_node(msg, '_MessageCode', MSG)
    codes = {n: int_const(class_attr(mc, n, MSG), f'_MessageCode.{n}') for n in ('KEEPALIVE', 'NOP', 'UPDATE', 'OPEN')}
    ka_type = type_byte(class_node(kamsg, 'KeepAlive', KAMSG), codes, KAMSG)
    nop = class_node(sched, 'NOP', SCHED)
    nop_type = type_byte(nop, codes, SCHED)
    sc = class_node(sched, 'Scheduling', SCHED)
    nsv = class_attr(nop, 'SCHEDULING', SCHED)
    d = dotted(nsv)
    if not d or not d.startswith('Scheduling.'):
        raise Untranslatable(f'{SCHED}: NOP.SCHEDULING is not a Scheduling member')
    nop_sched = int_const(class_attr(sc, d.split('.')[1], SCHED), d)
    msg_sched = int_const(class_attr(class_node(msg, 'Message', MSG), 'SCHEDULING', MSG), 'Message.SCHEDULING')
    if msg_sched != 0 or nop_sched == 0:
        raise Untranslatable('Message.SCHEDULING must be 0 (real message) and NOP.SCHEDULING non-zero')

    # ---- HoldTime.keepalive: `return int(self / self.KEEPALIVE_DIVISOR)`
    fk = find_function(hold, ['HoldTime', 'keepalive'])
    if args_of(fk) != ['self']:
        raise Untranslatable('HoldTime.keepalive signature changed')

    class TrHold(Tr):
        def expr(self, node):
            # int(a / b) with a >= 0 and b a positive constant: float division then truncation is
            # floor division for every a below 2^53 (the harness checks all of 0..65535)
            if isinstance(node, ast.Call) and dotted(node.func) == 'int' and len(node.args) == 1 and not node.keywords:
                a = node.args[0]
                if isinstance(a, ast.BinOp) and isinstance(a.op, ast.Div):
                    return f'({self.expr(a.left)} / {self.expr(a.right)})'
                self.fail(node, 'int() of something other than a / b')
            return super().expr(node)

    envk = Env(names={'self': 'self', 'self.KEEPALIVE_DIVISOR': 'HoldTime_KEEPALIVE_DIVISOR'})
    keepalive_body = TrHold(envk, HOLD).block(fk.body, None)

    # ---- ReceiveTimer
    rcls = class_node(timer, 'ReceiveTimer', TIMER)
    scls = class_node(timer, 'SendTimer', TIMER)
    for cls, meths in ((rcls, {'__init__', 'check_ka_timer', 'check_ka'}), (scls, {'__init__', 'need_ka'})):
        have = {s.name for s in cls.body if isinstance(s, (ast.FunctionDef, ast.AsyncFunctionDef))}
        if have != meths:
            raise Untranslatable(f'{TIMER}: methods of {cls.name} changed: {sorted(have)}')
        if cls.bases or cls.decorator_list:
            raise Untranslatable(f'{TIMER}: {cls.name} has bases/decorators')

    # __init__
    f = find_function(timer, ['ReceiveTimer', '__init__'])
    if args_of(f) != ['self', 'session', 'holdtime', 'code', 'subcode', 'message']:
        raise Untranslatable('ReceiveTimer.__init__ signature changed')
    env, state = method_env(RFIELDS, 'r_', 'Build_rtimer', {'holdtime': 'holdtime', 'code': 'code', 'subcode': 'subcode'}, set(), None)
    # python locals holdtime/code/subcode and the fields share their Coq names: the assignments
    # self.holdtime = holdtime ... become `let holdtime := holdtime in`
    rinit = TrTimer(env, TIMER, set()).block(f.body, state)
    assigned = TrTimer(env, TIMER, set()).assigned(f.body)
    if sorted(assigned) != sorted('self.' + x for x in RFIELDS):
        raise Untranslatable(f'ReceiveTimer.__init__ assigns {sorted(assigned)}')

    # check_ka_timer
    f = find_function(timer, ['ReceiveTimer', 'check_ka_timer'])
    if args_of(f) != ['self', 'message']:
        raise Untranslatable('check_ka_timer signature changed')
    drop = only_logging_locals(f)
    msg_names = {
        'message.TYPE': 'msg_type', 'message.SCHEDULING': 'msg_scheduling', 'KeepAlive.TYPE': 'KeepAlive_TYPE',
        'now': 'now', 'elapsed': 'elapsed',
    }
    env, state = method_env(RFIELDS, 'r_', 'Build_rtimer', msg_names, drop, lambda vals: f'Ret {vals[0]}')
    tr = TrTimer(env, TIMER, drop)
    ckt = tr.block(f.body, None)
    extra = [a for a in tr.assigned(f.body) if not a.startswith('self.') and a not in ('now', 'elapsed')]
    if extra:
        raise Untranslatable(f'check_ka_timer assigns unexpected locals {extra}')

    # check_ka: `if self.check_ka_timer(message): return` then the rest on the updated object
    f = find_function(timer, ['ReceiveTimer', 'check_ka'])
    if args_of(f) != ['self', 'message']:
        raise Untranslatable('check_ka signature changed')
    body = [s for s in f.body if not (isinstance(s, ast.Expr) and isinstance(s.value, ast.Constant))]
    if not body or not stmt_is(body[0], 'if self.check_ka_timer(message):\n    return'):
        raise Untranslatable('check_ka does not start with `if self.check_ka_timer(message): return`')
    for s in body[1:]:
        if 'check_ka_timer' in ast.unparse(s) or 'message' in [n.id for n in ast.walk(s) if isinstance(n, ast.Name)]:
            raise Untranslatable('check_ka uses check_ka_timer/message after its first statement')
    env, state = method_env(RFIELDS, 'r_', 'Build_rtimer', {}, set(), lambda vals: 'Ret tt')
    env.ret = lambda tr, vals: f'({state}, Ret tt)' if not vals else tr.fail(f, 'check_ka returns a value')
    rest = TrTimer(env, TIMER, set()).block(body[1:], f'({state}, Ret tt)')
    cka = (
        'match check_ka_timer self now msg_type msg_scheduling with\n'
        '| (self, Raise c s) => (self, Raise c s)\n'
        '| (self, Ret b) =>\n' + unpack_fields(RFIELDS, 'r_') + f'if b then ({state}, Ret tt) else (\n{rest})\nend'
    )

    # ---- SendTimer
    f = find_function(timer, ['SendTimer', '__init__'])
    if args_of(f) != ['self', 'session', 'holdtime']:
        raise Untranslatable('SendTimer.__init__ signature changed')
    env, sstate = method_env(SFIELDS, 's_', 'Build_stimer', {'holdtime': 'holdtime'}, set(), None)
    env.calls['holdtime.keepalive'] = lambda tr, n: '(holdtime_keepalive holdtime)' if not n.args and not n.keywords else tr.fail(n, 'keepalive() arity')
    sinit = TrTimer(env, TIMER, set()).block(f.body, sstate)
    assigned = TrTimer(env, TIMER, set()).assigned(f.body)
    if sorted(assigned) != sorted('self.' + x for x in SFIELDS):
        raise Untranslatable(f'SendTimer.__init__ assigns {sorted(assigned)}')

    f = find_function(timer, ['SendTimer', 'need_ka'])
    if args_of(f) != ['self']:
        raise Untranslatable('need_ka signature changed')
    drop = only_logging_locals(f)
    env, sstate = method_env(SFIELDS, 's_', 'Build_stimer', {'now': 'now', 'left': 'left'}, drop, lambda vals: vals[0], raise_ok=False)
    nka = TrTimer(env, TIMER, drop).block(f.body, None)

    # ---- call sites
    timeout_ms, _ = check_main_loop(peer)
    check_ka_class(ka)
    est_code, est_sub = check_establish(peer)
    (ow_code, ow_sub), (no_code, no_sub) = check_read_open(peer, proto)

    out = []
    out.append(f'(* GENERATED by translate/t3_timer.py from {TIMER}, {HOLD}, {PEER}, {KA}, {PROTO} - do not edit *)')
    out.append('From Coq Require Import ZArith Bool List.')
    out.append('Open Scope Z_scope.')
    out.append(f'Definition HoldTime_MIN : Z := {hmin}.')
    out.append(f'Definition HoldTime_MAX : Z := {hmax}.')
    out.append(f'Definition HoldTime_KEEPALIVE_DIVISOR : Z := {hdiv}.')
    out.append(f'Definition KeepAlive_TYPE : Z := {ka_type}.')
    out.append(f'Definition NOP_TYPE : Z := {nop_type}.')
    out.append(f'Definition NOP_SCHEDULING : Z := {nop_sched}.')
    out.append(f'Definition MESSAGE_SCHEDULING : Z := {msg_sched}.')
    out.append(f'Definition established_code : Z := {est_code}.')
    out.append(f'Definition established_subcode : Z := {est_sub}.')
    out.append(f'Definition openwait_code : Z := {ow_code}.')
    out.append(f'Definition openwait_subcode : Z := {ow_sub}.')
    out.append(f'Definition read_open_not_open_code : Z := {no_code}.')
    out.append(f'Definition read_open_not_open_subcode : Z := {no_sub}.')
    out.append(f'Definition main_read_timeout_ms : Z := {timeout_ms}.')
    out.append('Inductive outcome (A : Type) : Type := Ret (a : A) | Raise (c s : Z).')
    out.append('Arguments Ret {A} a. Arguments Raise {A} c s.')
    out.append('Record rtimer := { r_holdtime : Z; r_last_print : Z; r_last_read : Z; r_code : Z; r_subcode : Z; r_single : bool }.')
    out.append('Record stimer := { s_keepalive : Z; s_last_print : Z; s_last_sent : Z }.')
    out.append('(* HoldTime.keepalive *)')
    out.append('Definition holdtime_keepalive (self : Z) : Z :=')
    out.append(keepalive_body + '.')
    out.append('(* ReceiveTimer.__init__ (message defaults to the empty text; session/message are not state of the model) *)')
    out.append('Definition rtimer_init (holdtime code subcode now : Z) : rtimer :=')
    out.append(rinit + '.')
    out.append('(* ReceiveTimer.check_ka_timer *)')
    out.append('Definition check_ka_timer (self : rtimer) (now msg_type msg_scheduling : Z) : rtimer * outcome bool :=')
    out.append(unpack_fields(RFIELDS, 'r_') + ckt + '.')
    out.append('(* ReceiveTimer.check_ka *)')
    out.append('Definition check_ka (self : rtimer) (now msg_type msg_scheduling : Z) : rtimer * outcome unit :=')
    out.append(cka + '.')
    out.append('(* SendTimer.__init__ *)')
    out.append('Definition stimer_init (holdtime now : Z) : stimer :=')
    out.append(sinit + '.')
    out.append('(* SendTimer.need_ka *)')
    out.append('Definition need_ka (self : stimer) (now : Z) : stimer * bool :=')
    out.append(unpack_fields(SFIELDS, 's_') + nka + '.')
    return '\n'.join(out) + '\n'


def main(repo: str, gen_dir: str) -> None:
    text = generate(repo)
    write_if_changed(os.path.join(gen_dir, 'Gen_Timer.v'), text)


if __name__ == '__main__':
    main(sys.argv[1], sys.argv[2])
