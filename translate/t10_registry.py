"""T10 - import-time reflection of the NLRI / attribute registries -> coq/gen/Gen_NlriRegistry.v

What is regenerated from the working tree on every run (fail closed):
  * NLRI.registered_nlri      (afi, safi) -> decoder class, mapped to a model kind
        INET -> KInet, Label -> KLabel, IPVPN -> KIpvpn, every other class -> KOpaque (packed-bytes-first)
  * SAFI.has_label()          for every registered SAFI
  * Family.size[...][1]       (route distinguisher size) for every registered family
  * IP.length(afi)            for ipv4 / ipv6
  * Family.index()            for every registered family (the ASCII bytes the code produces)
  * Attribute.registered_attributes  (id, flag) -> class name  (table only; used by the harness and
                                      restated as a count in Prop_C15)
Anything unexpected (an IP family decoded by another class, an rd size other than 0/8, an unknown
shape of the registries) raises: the model would no longer describe the code.
"""

from __future__ import annotations

import importlib
import os
import sys

from translate.py2coq import Untranslatable, write_if_changed

KINDS = {'INET': 'KInet', 'Label': 'KLabel', 'IPVPN': 'KIpvpn'}
# families whose decoder the hand-written model Model_Nlri covers, with the class the model assumes
EXPECT = {
    (1, 1): 'INET', (1, 2): 'INET', (2, 1): 'INET', (2, 2): 'INET',
    (1, 4): 'Label', (2, 4): 'Label',
    (1, 128): 'IPVPN', (2, 128): 'IPVPN',
}


def reflect(repo: str) -> dict:
    src = os.path.join(repo, 'src')
    if not os.path.isdir(os.path.join(src, 'exabgp')):
        raise Untranslatable(f'{src}/exabgp not found')
    mod = sys.modules.get('exabgp')
    if mod is not None and not os.path.abspath(mod.__file__).startswith(os.path.abspath(src) + os.sep):
        raise Untranslatable(f'exabgp already imported from {mod.__file__}, not from {src}')
    if src not in sys.path:
        sys.path.insert(0, src)
    importlib.import_module('exabgp.bgp.message.update.nlri')
    importlib.import_module('exabgp.bgp.message.update.attribute')
    from exabgp.bgp.message.update.nlri.nlri import NLRI
    from exabgp.bgp.message.update.attribute.attribute import Attribute
    from exabgp.protocol.family import AFI, SAFI, Family
    from exabgp.protocol.ip import IP

    fams = []
    keys = set()
    for afi, safi in NLRI.registered_families:
        key = '{}/{}'.format(afi, safi)
        if key not in NLRI.registered_nlri:
            # (ipv4, multicast) is pre-seeded in registered_families; it must still have a decoder
            raise Untranslatable(f'family {key} listed in registered_families has no decoder')
        if key in keys:
            continue
        keys.add(key)
        klass = NLRI.registered_nlri[key]
        a, s = int(afi), int(safi)
        if not (0 < a < 65536 and 0 < s < 256):
            raise Untranslatable(f'family {key}: afi/safi out of range ({a}, {s})')
        size = Family.size.get((afi, safi))
        if size is None:
            raise Untranslatable(f'family {key} has a decoder but no Family.size entry')
        rd = int(size[1])
        if rd not in (0, 8):
            raise Untranslatable(f'family {key}: route distinguisher size {rd}')
        idx = bytes(Family(afi, safi).index())
        fams.append({'afi': a, 'safi': s, 'key': key, 'cls': klass.__name__, 'rd': rd,
                     'has_label': bool(SAFI.from_int(s).has_label()), 'index': list(idx)})
    if set(NLRI.registered_nlri) != keys:
        raise Untranslatable(f'registered_nlri and registered_families disagree: {sorted(set(NLRI.registered_nlri) ^ keys)}')
    seen = {(f['afi'], f['safi']): f for f in fams}
    for fam, want in EXPECT.items():
        got = seen.get(fam)
        if got is None or got['cls'] != want:
            raise Untranslatable(f'family {fam} is decoded by {got and got["cls"]}, the model assumes {want}')
    for f in fams:
        if f['cls'] in KINDS and (f['afi'], f['safi']) not in EXPECT:
            raise Untranslatable(f'family {f["key"]} is decoded by {f["cls"]} but is not one the model covers')
        if f['cls'] in ('INET', 'Label') and f['rd'] != 0 or f['cls'] == 'IPVPN' and f['rd'] != 8:
            raise Untranslatable(f'family {f["key"]} ({f["cls"]}) has route distinguisher size {f["rd"]}')
        if f['cls'] == 'INET' and f['has_label'] or f['cls'] in ('Label', 'IPVPN') and not f['has_label']:
            raise Untranslatable(f'family {f["key"]} ({f["cls"]}): has_label = {f["has_label"]}')
    iplen = {1: int(IP.length(AFI.ipv4)), 2: int(IP.length(AFI.ipv6))}
    if iplen != {1: 4, 2: 16}:
        raise Untranslatable(f'IP.length changed: {iplen}')
    attrs = []
    for (aid, flag), klass in sorted(Attribute.registered_attributes.items()):
        if not (0 <= int(aid) < 256 and 0 <= int(flag) < 256):
            raise Untranslatable(f'attribute key out of range: {(aid, flag)}')
        attrs.append({'id': int(aid), 'flag': int(flag), 'cls': klass.__name__})
    if not attrs:
        raise Untranslatable('no registered attributes')
    return {'families': sorted(fams, key=lambda f: (f['afi'], f['safi'])), 'iplen': iplen, 'attributes': attrs}


def zl(xs):
    return '[' + ';'.join(str(x) for x in xs) + ']'


def generate(repo: str) -> str:
    r = reflect(repo)
    fams = r['families']
    out = []
    out.append('(* GENERATED by translate/t10_registry.py from the imported exabgp package - do not edit. *)')
    out.append('From Coq Require Import ZArith List Bool String.')
    out.append('Import ListNotations.')
    out.append('Open Scope Z_scope.')
    out.append('')
    out.append('Inductive nlri_kind := KInet | KLabel | KIpvpn | KOpaque (cls : string).')
    out.append('')
    out.append('(* NLRI.registered_nlri: (afi, safi) -> decoder class *)')
    out.append('Definition nlri_class (afi safi : Z) : option nlri_kind :=')
    for f in fams:
        kind = KINDS.get(f['cls'], f'(KOpaque "{f["cls"]}"%string)')
        out.append(f'  if (afi =? {f["afi"]}) && (safi =? {f["safi"]}) then Some {kind} else  (* {f["key"]} *)')
    out.append('  None.')
    out.append('')
    out.append('Definition registered_families : list (Z * Z) :=')
    out.append('  [' + '; '.join(f'({f["afi"]}, {f["safi"]})' for f in fams) + '].')
    out.append('')
    out.append('(* SAFI.has_label() over the registered SAFIs *)')
    labelled = sorted({f['safi'] for f in fams if f['has_label']})
    out.append('Definition safi_has_label (safi : Z) : bool := ' + (' || '.join(f'(safi =? {s})' for s in labelled) or 'false') + '.')
    out.append('')
    out.append('(* Family.size[(afi, safi)][1]: route distinguisher size in bytes *)')
    out.append('Definition rd_size (afi safi : Z) : Z :=')
    for f in fams:
        if f['rd']:
            out.append(f'  if (afi =? {f["afi"]}) && (safi =? {f["safi"]}) then {f["rd"]} else')
    out.append('  0.')
    out.append('')
    out.append('(* IP.length(afi) *)')
    out.append(f'Definition ip_length (afi : Z) : Z := if afi =? 1 then {r["iplen"][1]} else {r["iplen"][2]}.')
    out.append('')
    out.append('(* bytes of Family.index() for every registered family, as the code computes them *)')
    out.append('Definition family_index_table : list (Z * Z * list Z) :=')
    out.append('  [' + ';\n   '.join(f'({f["afi"]}, {f["safi"]}, {zl(f["index"])})' for f in fams) + '].')
    out.append('')
    out.append('(* Attribute.registered_attributes: (id, flag, class) *)')
    out.append('Definition registered_attributes : list (Z * Z * string) :=')
    out.append('  [' + ';\n   '.join(f'({a["id"]}, {a["flag"]}, "{a["cls"]}"%string)' for a in r['attributes']) + '].')
    out.append('')
    return '\n'.join(out)


def main(repo: str, gen_dir: str) -> None:
    write_if_changed(os.path.join(gen_dir, 'Gen_NlriRegistry.v'), generate(repo))


if __name__ == '__main__':
    main(sys.argv[1] if len(sys.argv) > 1 else '/repo', sys.argv[2] if len(sys.argv) > 2 else '/verif/coq/gen')
