"""T7 - API command intake constants -> coq/gen/Gen_Limit.v

Read from the working tree of the repository by python `ast` (nothing is imported, so the `repo`
argument alone decides what is translated):

* reactor/api/command/limit.py   SELECTOR_KEYS (frozenset of string constants); the same set must be
                                 declared by reactor/api/dispatch/common.py
* reactor/api/processes.py       Processes.MAX_COMMAND_SIZE (integer product), and from
                                 `_async_reader_callback`: the os.read size, the codec of str(raw, codec),
                                 the separator of raw.split(sep, 1), the 'debug ' prefix of startswith
* configuration/core/format.py   formated(): strip() followed by the ordered chain of single-character
                                 .replace(a, b) calls and the final '  ' -> ' ' fix-point loop

Fail closed: every shape that is not exactly the expected one raises Untranslatable.
match_neighbor's regular expression is NOT translated (hand model + differential check, DESIGN 4.1).
"""

from __future__ import annotations

import ast
import os

from translate.py2coq import Untranslatable, write_if_changed

LIMIT = 'src/exabgp/reactor/api/command/limit.py'
COMMON = 'src/exabgp/reactor/api/dispatch/common.py'
PROCESSES = 'src/exabgp/reactor/api/processes.py'
FORMAT = 'src/exabgp/configuration/core/format.py'


def parse(repo, rel):
    with open(os.path.join(repo, rel)) as f:
        return ast.parse(f.read())


def selector_keys(tree, where):
    found = None
    for node in tree.body:
        if isinstance(node, ast.Assign) and len(node.targets) == 1 and isinstance(node.targets[0], ast.Name) \
                and node.targets[0].id == 'SELECTOR_KEYS':
            v = node.value
            if not (isinstance(v, ast.Call) and isinstance(v.func, ast.Name) and v.func.id == 'frozenset'
                    and len(v.args) == 1 and not v.keywords and isinstance(v.args[0], (ast.List, ast.Tuple, ast.Set))):
                raise Untranslatable(f'{where}: SELECTOR_KEYS is not frozenset([...])')
            keys = []
            for e in v.args[0].elts:
                if not (isinstance(e, ast.Constant) and isinstance(e.value, str) and e.value.isascii()):
                    raise Untranslatable(f'{where}: SELECTOR_KEYS element is not an ASCII string constant')
                keys.append(e.value)
            if found is not None:
                raise Untranslatable(f'{where}: SELECTOR_KEYS assigned twice')
            found = keys
    if found is None:
        raise Untranslatable(f'{where}: SELECTOR_KEYS not found')
    if len(set(found)) != len(found):
        raise Untranslatable(f'{where}: duplicate selector key')
    return found


def int_const(node, where):
    if isinstance(node, ast.Constant) and type(node.value) is int:
        return node.value
    if isinstance(node, ast.BinOp) and isinstance(node.op, ast.Mult):
        return int_const(node.left, where) * int_const(node.right, where)
    raise Untranslatable(f'{where}: not an integer constant or product of constants')


def find_class(tree, name):
    for node in tree.body:
        if isinstance(node, ast.ClassDef) and node.name == name:
            return node
    raise Untranslatable(f'class {name} not found')


def find_def(body, name):
    hits = [n for n in body if isinstance(n, (ast.FunctionDef, ast.AsyncFunctionDef)) and n.name == name]
    if len(hits) != 1:
        raise Untranslatable(f'function {name}: {len(hits)} definitions')
    return hits[0]


def processes_constants(tree):
    cls = find_class(tree, 'Processes')
    max_size = None
    for node in cls.body:
        if isinstance(node, ast.AnnAssign) and isinstance(node.target, ast.Name) and node.target.id == 'MAX_COMMAND_SIZE':
            max_size = int_const(node.value, 'Processes.MAX_COMMAND_SIZE')
        if isinstance(node, ast.Assign) and any(isinstance(t, ast.Name) and t.id == 'MAX_COMMAND_SIZE' for t in node.targets):
            max_size = int_const(node.value, 'Processes.MAX_COMMAND_SIZE')
    if max_size is None:
        raise Untranslatable('Processes.MAX_COMMAND_SIZE not found')
    fn = find_def(cls.body, '_async_reader_callback')
    reads, codecs, seps, prefixes, oversize, rstrips, appends = [], [], [], [], [], 0, 0
    for node in ast.walk(fn):
        if isinstance(node, ast.Call):
            f = node.func
            if isinstance(f, ast.Attribute) and isinstance(f.value, ast.Name) and f.value.id == 'os' and f.attr == 'read':
                if len(node.args) != 2:
                    raise Untranslatable('os.read arity')
                reads.append(int_const(node.args[1], 'os.read size'))
            elif isinstance(f, ast.Name) and f.id == 'str' and len(node.args) == 2:
                a = node.args[1]
                if not (isinstance(a, ast.Constant) and isinstance(a.value, str)):
                    raise Untranslatable('str(raw, codec): codec is not a constant')
                codecs.append(a.value)
            elif isinstance(f, ast.Attribute) and f.attr == 'split':
                if not (len(node.args) == 2 and isinstance(node.args[0], ast.Constant) and isinstance(node.args[1], ast.Constant)
                        and node.args[1].value == 1 and isinstance(f.value, ast.Name) and f.value.id == 'raw'):
                    raise Untranslatable('reader: split call is not raw.split(sep, 1)')
                seps.append(node.args[0].value)
            elif isinstance(f, ast.Attribute) and f.attr == 'startswith':
                if not (len(node.args) == 1 and isinstance(node.args[0], ast.Constant) and isinstance(node.args[0].value, str)
                        and isinstance(f.value, ast.Name) and f.value.id == 'line'):
                    raise Untranslatable('reader: startswith call is not line.startswith(<constant>)')
                prefixes.append(node.args[0].value)
            elif isinstance(f, ast.Attribute) and f.attr == 'rstrip':
                if node.args or node.keywords or not (isinstance(f.value, ast.Name) and f.value.id == 'line'):
                    raise Untranslatable('reader: rstrip call is not line.rstrip()')
                rstrips += 1
            elif isinstance(f, ast.Attribute) and f.attr == 'append' and isinstance(f.value, ast.Attribute) \
                    and f.value.attr == '_command_queue':
                # self._command_queue.append((process_name, formated(line)))
                ok = (len(node.args) == 1 and isinstance(node.args[0], ast.Tuple) and len(node.args[0].elts) == 2
                      and isinstance(node.args[0].elts[1], ast.Call) and isinstance(node.args[0].elts[1].func, ast.Name)
                      and node.args[0].elts[1].func.id == 'formated')
                if not ok:
                    raise Untranslatable('reader: the queued item is not (process_name, formated(line))')
                appends += 1
        if isinstance(node, ast.If):
            # if '\n' not in raw and len(raw) > self.MAX_COMMAND_SIZE:
            t = node.test
            if isinstance(t, ast.BoolOp) and isinstance(t.op, ast.And) and len(t.values) == 2:
                a, b = t.values
                if (isinstance(a, ast.Compare) and len(a.ops) == 1 and isinstance(a.ops[0], ast.NotIn)
                        and isinstance(a.left, ast.Constant) and isinstance(a.comparators[0], ast.Name) and a.comparators[0].id == 'raw'
                        and isinstance(b, ast.Compare) and len(b.ops) == 1 and isinstance(b.ops[0], ast.Gt)
                        and isinstance(b.left, ast.Call) and isinstance(b.left.func, ast.Name) and b.left.func.id == 'len'
                        and isinstance(b.comparators[0], ast.Attribute) and b.comparators[0].attr == 'MAX_COMMAND_SIZE'):
                    oversize.append(a.left.value)
    if len(reads) != 1:
        raise Untranslatable(f'reader: expected one os.read, found {len(reads)}')
    if codecs != ['ascii']:
        raise Untranslatable(f'reader: codec is {codecs}, the model assumes ascii')
    if seps != ['\n'] or oversize != ['\n']:
        raise Untranslatable(f'reader: separator {seps} / oversize test {oversize} is not the single newline rule')
    if len(prefixes) != 1 or not prefixes[0].isascii():
        raise Untranslatable(f'reader: startswith prefixes {prefixes}')
    if rstrips != 1 or appends != 1:
        raise Untranslatable(f'reader: {rstrips} rstrip calls, {appends} queue appends (expected one each)')
    return max_size, reads[0], prefixes[0]


def formated_table(tree):
    fn = find_def(tree.body, 'formated')
    chain = None
    loop = None
    for node in fn.body:
        if isinstance(node, ast.Assign) and len(node.targets) == 1 and isinstance(node.targets[0], ast.Name) \
                and node.targets[0].id == 'new_line':
            chain = node.value
        if isinstance(node, ast.While):
            loop = node
    if chain is None or loop is None:
        raise Untranslatable('formated: new_line assignment or the while loop is missing')
    table = []
    cur = chain
    while isinstance(cur, ast.Call) and isinstance(cur.func, ast.Attribute) and cur.func.attr == 'replace':
        if not (len(cur.args) == 2 and all(isinstance(a, ast.Constant) and isinstance(a.value, str) for a in cur.args)):
            raise Untranslatable('formated: replace arguments are not string constants')
        table.append((cur.args[0].value, cur.args[1].value))
        cur = cur.func.value
    if not (isinstance(cur, ast.Call) and isinstance(cur.func, ast.Attribute) and cur.func.attr == 'strip' and not cur.args
            and isinstance(cur.func.value, ast.Name) and cur.func.value.id == 'line'):
        raise Untranslatable('formated: the chain does not start with line.strip()')
    table.reverse()
    produced = set()
    for a, b in table:
        if len(a) != 1 or not a.isascii() or not b.isascii():
            raise Untranslatable(f'formated: replacement {a!r} is not a single ASCII character')
        if a in produced:
            raise Untranslatable(f'formated: {a!r} is produced by an earlier replacement (not a per-character map)')
        produced.update(ch for ch in b if ch != a)
    if len({a for a, _ in table}) != len(table):
        raise Untranslatable('formated: a character is replaced twice')
    # a replacement must not create a character an EARLIER one would have handled differently
    for i, (a, b) in enumerate(table):
        for a2, _ in table[:i]:
            if a2 in b:
                raise Untranslatable(f'formated: {a!r} -> {b!r} re-creates {a2!r}')
    # while new_line != changed_line: changed_line = new_line; new_line = new_line.replace('  ', ' ')
    reps = [n for n in ast.walk(loop) if isinstance(n, ast.Call) and isinstance(n.func, ast.Attribute) and n.func.attr == 'replace']
    if len(reps) != 1 or [a.value for a in reps[0].args if isinstance(a, ast.Constant)] != ['  ', ' ']:
        raise Untranslatable('formated: the loop is not the double-space collapse')
    ret = fn.body[-1]
    if not (isinstance(ret, ast.Return) and isinstance(ret.value, ast.Name) and ret.value.id == 'new_line'):
        raise Untranslatable('formated: does not return new_line')
    return table


def zl(s: str) -> str:
    return '[' + '; '.join(str(ord(c)) for c in s) + ']'


def generate(repo: str) -> str:
    keys = selector_keys(parse(repo, LIMIT), LIMIT)
    keys2 = selector_keys(parse(repo, COMMON), COMMON)
    if set(keys) != set(keys2):
        raise Untranslatable(f'SELECTOR_KEYS differ between limit.py {sorted(keys)} and dispatch/common.py {sorted(keys2)}')
    max_size, read_size, prefix = processes_constants(parse(repo, PROCESSES))
    table = formated_table(parse(repo, FORMAT))
    out = ['(* GENERATED by translate/t7_limit.py - do not edit *)',
           'From Coq Require Import ZArith List.', 'Import ListNotations.', 'Open Scope Z_scope.',
           f'(* {LIMIT}: SELECTOR_KEYS, sorted; characters as code points *)',
           'Definition SELECTOR_KEYS : list (list Z) := [' + '; '.join(zl(k) for k in sorted(keys)) + '].',
           f'(* {PROCESSES} *)',
           f'Definition MAX_COMMAND_SIZE : Z := {max_size}.',
           f'Definition READ_SIZE : Z := {read_size}.',
           f'Definition DEBUG_PREFIX : list Z := {zl(prefix)}.',
           f'(* {FORMAT}: formated() = strip, then per character (in this order), then collapse of space runs *)',
           'Definition REPLACEMENTS : list (Z * list Z) := [' + '; '.join(f'({ord(a)}, {zl(b)})' for a, b in table) + '].',
           '']
    return '\n'.join(out)


def main(repo: str, gen_dir: str) -> None:
    write_if_changed(os.path.join(gen_dir, 'Gen_Limit.v'), generate(repo))


if __name__ == '__main__':
    import sys

    print(generate(sys.argv[1] if len(sys.argv) > 1 else '/repo'))
