"""T12 - shape of the attribute walk and the tables the C03 model needs -> coq/gen/Gen_ParseShape.v

By `ast` inspection of AttributeCollection.parse (bgp/message/update/attribute/collection.py):
  * RECURSIVE: the function calls itself (`self.parse(left, negotiated)`) on the remaining data, every such call
    is the value of a `return`, and it contains no loop            -> PARSE_IS_RECURSIVE := true
  * ITERATIVE: the function contains a loop and no call to itself  -> PARSE_IS_RECURSIVE := false
  * anything else (both, neither, a call to itself that is not a tail call on `left`) raises: fail closed.
  * the two header sizes (`offset = 3` / `offset = 4`) and the two IndexError guards of the header.
By import-time reflection (never from literals here): Attribute.Flag bits, for every registered attribute its
registration flag and RFC 7606 behaviour flags, attributes_known/optional; Operational.registered_operational
(code -> category); the fixed sizes of OPEN / NOTIFICATION; Capabilities.EXTENDED_LENGTH and the Parameter codes.
"""

from __future__ import annotations

import ast
import os

from translate.py2coq import Untranslatable, write_if_changed

SRC = 'src/exabgp/bgp/message/update/attribute/collection.py'


def _is_self_parse(call: ast.Call) -> bool:
    f = call.func
    if not (isinstance(f, ast.Attribute) and f.attr == 'parse'):
        return False
    v = f.value
    if isinstance(v, ast.Name) and v.id in ('self', 'cls', 'AttributeCollection'):
        return True
    if isinstance(v, ast.Call) and isinstance(v.func, ast.Name) and v.func.id in ('cls', 'AttributeCollection'):
        return True
    return False


def shape(repo: str) -> dict:
    path = os.path.join(repo, SRC)
    tree = ast.parse(open(path).read())
    klass = [n for n in tree.body if isinstance(n, ast.ClassDef) and n.name == 'AttributeCollection']
    if len(klass) != 1:
        raise Untranslatable('class AttributeCollection not found (or defined twice)')
    funcs = [n for n in klass[0].body if isinstance(n, ast.FunctionDef) and n.name == 'parse']
    if len(funcs) != 1:
        raise Untranslatable('AttributeCollection.parse not found (or defined twice)')
    fn = funcs[0]
    args = [a.arg for a in fn.args.args]
    if args != ['self', 'data', 'negotiated']:
        raise Untranslatable(f'AttributeCollection.parse signature changed: {args}')
    nested = [n for n in ast.walk(fn) if isinstance(n, (ast.FunctionDef, ast.AsyncFunctionDef)) and n is not fn]
    if nested:
        raise Untranslatable('AttributeCollection.parse defines a nested function (walk could hide in it)')
    calls = [n for n in ast.walk(fn) if isinstance(n, ast.Call) and _is_self_parse(n)]
    loops = [n for n in ast.walk(fn) if isinstance(n, (ast.While, ast.For))]
    comps = [n for n in ast.walk(fn) if isinstance(n, (ast.ListComp, ast.GeneratorExp, ast.SetComp, ast.DictComp))]
    if comps:
        raise Untranslatable('AttributeCollection.parse contains a comprehension (not in the whitelist)')
    returned = set()
    for n in ast.walk(fn):
        if isinstance(n, ast.Return) and isinstance(n.value, ast.Call) and _is_self_parse(n.value):
            returned.add(id(n.value))
    if calls and loops:
        raise Untranslatable('AttributeCollection.parse both loops and calls itself: shape not recognised')
    if not calls and not loops:
        raise Untranslatable('AttributeCollection.parse neither loops nor calls itself: shape not recognised')
    stops = ('return self',)
    if calls:
        for c in calls:
            if id(c) not in returned:
                raise Untranslatable(f'line {c.lineno}: parse calls itself outside a `return` (not a tail call)')
            if not (len(c.args) == 2 and isinstance(c.args[0], ast.Name) and c.args[0].id == 'left'):
                raise Untranslatable(f'line {c.lineno}: parse calls itself on something else than `left`')
        recursive = True
    else:
        whiles = [n for n in loops if isinstance(n, ast.While)]
        if len(loops) != 1 or len(whiles) != 1:
            raise Untranslatable('iterative AttributeCollection.parse: expected exactly one `while` loop')
        t = whiles[0].test
        if not (isinstance(t, ast.Name) and t.id == 'data'):
            raise Untranslatable('iterative AttributeCollection.parse: the loop is not `while data:`')
        recursive = False
        # the loop either holds the per-attribute code itself, or is exactly
        #   left = self._parse_one(data, negotiated); if left is None: break; data = left
        helper_calls = [n for n in ast.walk(fn) if isinstance(n, ast.Call) and isinstance(n.func, ast.Attribute)
                        and n.func.attr == '_parse_one']
        if helper_calls:
            want = ['left = self._parse_one(data, negotiated)', 'if left is None:\n    break', 'data = left']
            got = [ast.unparse(x) for x in whiles[0].body]
            if got != want or len(helper_calls) != 1:
                raise Untranslatable(f'iterative AttributeCollection.parse: unrecognised loop body {got}')
            tail = [ast.unparse(x) for x in fn.body if not isinstance(x, ast.While) and not isinstance(x, ast.Expr)]
            if tail != ['return self']:
                raise Untranslatable(f'iterative AttributeCollection.parse: unexpected statements around the loop {tail}')
            helpers = [n for n in klass[0].body if isinstance(n, ast.FunctionDef) and n.name == '_parse_one']
            if len(helpers) != 1 or [a.arg for a in helpers[0].args.args] != ['self', 'data', 'negotiated']:
                raise Untranslatable('AttributeCollection._parse_one not found or with another signature')
            fn = helpers[0]
            bad = [n for n in ast.walk(fn) if isinstance(n, (ast.While, ast.For, ast.FunctionDef, ast.AsyncFunctionDef)) and n is not fn]
            inner = [n for n in ast.walk(fn) if isinstance(n, ast.Call) and isinstance(n.func, ast.Attribute)
                     and n.func.attr in ('parse', '_parse_one') and isinstance(n.func.value, (ast.Name, ast.Call))
                     and (getattr(n.func.value, 'id', '') in ('self', 'cls', 'AttributeCollection') or isinstance(n.func.value, ast.Call))]
            if bad or inner:
                raise Untranslatable('AttributeCollection._parse_one loops or calls the walk again')
            # it returns what follows the attribute (`left`) or None
            for n in ast.walk(fn):
                if isinstance(n, ast.Return) and ast.unparse(n) not in ('return left', 'return None'):
                    raise Untranslatable(f'line {n.lineno}: _parse_one returns something else than `left` or None')
            stops = ('return None',)
        else:
            stops = ('return self', 'break')
    # header sizes: the assignments `offset = <constant>`
    offsets = sorted({n.value.value for n in ast.walk(fn)
                      if isinstance(n, ast.Assign) and len(n.targets) == 1 and isinstance(n.targets[0], ast.Name)
                      and n.targets[0].id == 'offset' and isinstance(n.value, ast.Constant)})
    if offsets != [3, 4]:
        raise Untranslatable(f'attribute header sizes are not 3 and 4: {offsets}')
    # the two header guards: `except IndexError` handlers that add TreatAsWithdraw and return self
    guards = 0
    for n in ast.walk(fn):
        if isinstance(n, ast.ExceptHandler) and isinstance(n.type, ast.Name) and n.type.id == 'IndexError':
            body = n.body
            adds = [s for s in body if isinstance(s, ast.Expr) and isinstance(s.value, ast.Call)
                    and isinstance(s.value.func, ast.Attribute) and s.value.func.attr == 'add'
                    and s.value.args and isinstance(s.value.args[0], ast.Call)
                    and getattr(s.value.args[0].func, 'id', '') == 'TreatAsWithdraw']
            rets = [s for s in body if ast.unparse(s) in stops]
            if adds and rets:
                guards += 1
    if guards != 2:
        raise Untranslatable(f'expected the two truncated-header guards (IndexError -> TreatAsWithdraw, return self), found {guards}')
    # the value slice: `attribute = data[:length]` and `left = data[length:]` (an overrun is not refused)
    src = ast.unparse(fn)
    for needle in ('data = data[offset:]', 'left = data[length:]', 'attribute = data[:length]'):
        if needle not in src:
            raise Untranslatable(f'AttributeCollection.parse no longer contains `{needle}`')
    # an attribute length that overruns the block: either nothing tests it (the slice is silently short), or an
    # `if len(data) < length:` that records TreatAsWithdraw and ends the walk (`return self`)
    overrun = [n for n in ast.walk(fn) if isinstance(n, ast.If) and ast.unparse(n.test) in ('len(data) < length', 'length > len(data)')]
    if len(overrun) > 1:
        raise Untranslatable('more than one overrun test in AttributeCollection.parse')
    overrun_stops = False
    if overrun:
        body = overrun[0].body
        ok = (len(body) == 2 and ast.unparse(body[0]).startswith('self.add(TreatAsWithdraw(') and ast.unparse(body[1]) in stops
              and not overrun[0].orelse)
        if not ok:
            raise Untranslatable('the overrun test of AttributeCollection.parse does something else than TreatAsWithdraw + stop')
        if src.index('data = data[offset:]') > src.index(ast.unparse(overrun[0].test)) or src.index('left = data[length:]') < src.index(ast.unparse(overrun[0].test)):
            raise Untranslatable('the overrun test is not between `data = data[offset:]` and `left = data[length:]`')
        overrun_stops = True
    return {'recursive': recursive, 'min': offsets[0], 'ext': offsets[1], 'self_calls': len(calls), 'overrun_stops': overrun_stops}


OPSRC = 'src/exabgp/bgp/message/operational.py'


def advisory_shape(repo: str) -> bool:
    """Advisory.ADM / Advisory.ASM __init__: does the constructor accept the memoryview slice the decoder hands it?
    False: `if isinstance(advisory, bytes): utf8 = advisory  else: utf8 = advisory.encode('utf-8')` (a memoryview has no
    encode -> AttributeError).  True: `if isinstance(advisory, str): utf8 = advisory.encode(...) else: utf8 = bytes(advisory)`.
    Anything else raises."""
    tree = ast.parse(open(os.path.join(repo, OPSRC)).read())
    adv = [n for n in tree.body if isinstance(n, ast.ClassDef) and n.name == 'Advisory']
    if len(adv) != 1:
        raise Untranslatable('class Advisory not found in operational.py')
    verdicts = []
    for name in ('ADM', 'ASM'):
        ks = [n for n in adv[0].body if isinstance(n, ast.ClassDef) and n.name == name]
        if len(ks) != 1:
            raise Untranslatable(f'Advisory.{name} not found')
        inits = [n for n in ks[0].body if isinstance(n, ast.FunctionDef) and n.name == '__init__']
        if len(inits) != 1:
            raise Untranslatable(f'Advisory.{name}.__init__ not found')
        ifs = [n for n in inits[0].body if isinstance(n, ast.If) and ast.unparse(n.test).startswith('isinstance(advisory,')]
        if len(ifs) != 1 or len(ifs[0].body) != 1 or len(ifs[0].orelse) != 1:
            raise Untranslatable(f'Advisory.{name}.__init__: the isinstance(advisory, ...) test is not recognised')
        test = ast.unparse(ifs[0].test)
        then, other = ast.unparse(ifs[0].body[0]), ast.unparse(ifs[0].orelse[0])
        if test == 'isinstance(advisory, bytes)' and then == 'utf8 = advisory' and other == "utf8 = advisory.encode('utf-8')":
            verdicts.append(False)
        elif test == 'isinstance(advisory, str)' and then == "utf8 = advisory.encode('utf-8')" and other == 'utf8 = bytes(advisory)':
            verdicts.append(True)
        else:
            raise Untranslatable(f'Advisory.{name}.__init__: unrecognised conversion `{test}` / `{then}` / `{other}`')
    if verdicts[0] != verdicts[1]:
        raise Untranslatable('Advisory.ADM and Advisory.ASM convert their advisory differently')
    return verdicts[0]


def _int(v, what):
    if isinstance(v, bool) or not isinstance(v, int):
        raise Untranslatable(f'{what} is not an integer: {v!r}')
    return int(v)


def _b(v, what):
    if not isinstance(v, bool):
        raise Untranslatable(f'{what} is not a boolean: {v!r}')
    return 'true' if v else 'false'


def reflect(repo: str) -> dict:
    import exabgp

    here = os.path.realpath(os.path.dirname(os.path.dirname(exabgp.__file__)))
    if here != os.path.realpath(os.path.join(repo, 'src')):
        raise Untranslatable(f'exabgp imported from {here}, not from {repo}/src')
    from exabgp.bgp.message.update.attribute.attribute import Attribute
    import exabgp.bgp.message.update  # noqa: F401 (registers every attribute class)
    from exabgp.bgp.message.operational import Operational
    from exabgp.bgp.message.open import Open
    from exabgp.bgp.message.open.version import Version
    from exabgp.bgp.message.open.capability.capabilities import Capabilities
    from exabgp.bgp.message.open.capability import capabilities as capmod
    from exabgp.bgp.message.notification import Notification
    from exabgp.bgp.message.update import collection as ucoll

    F = Attribute.Flag
    out = {
        'F_EXT': _int(F.EXTENDED_LENGTH, 'EXTENDED_LENGTH'), 'F_PARTIAL': _int(F.PARTIAL, 'PARTIAL'),
        'F_TRANSITIVE': _int(F.TRANSITIVE, 'TRANSITIVE'), 'F_OPTIONAL': _int(F.OPTIONAL, 'OPTIONAL'),
        'MASK_PARTIAL': _int(F.MASK_PARTIAL, 'MASK_PARTIAL') & 0xFF,
    }
    rows = {}
    for (aid, flg), klass in Attribute.registered_attributes.items():
        aid = _int(aid, 'registered id')
        if aid in rows:
            raise Untranslatable(f'two registrations for attribute code {aid} (the model keeps one flag per code)')
        if not 0 <= aid <= 255:
            raise Untranslatable(f'registered attribute code {aid} outside one octet')
        if Attribute.klass_by_id(aid) is not klass:
            raise Untranslatable(f'klass_by_id({aid}) is not the registered class')
        rows[aid] = {
            'flag': _int(flg, 'registration flag'),
            'optional': 'true' if aid in Attribute.attributes_optional else 'false',
            'taw': _b(klass.TREAT_AS_WITHDRAW, 'TREAT_AS_WITHDRAW'), 'discard': _b(klass.DISCARD, 'DISCARD'),
            'nodup': _b(klass.NO_DUPLICATE, 'NO_DUPLICATE'), 'vzero': _b(klass.VALID_ZERO, 'VALID_ZERO'),
            'name': klass.__name__,
        }
    if sorted(set(Attribute.attributes_known)) != sorted(rows):
        raise Untranslatable('attributes_known differs from the registered codes')
    out['rows'] = rows
    cats = {'advisory': 1, 'query': 2, 'counter': 3}
    ops = []
    for code, (cat, klass) in sorted(Operational.registered_operational.items()):
        ops.append((_int(code, 'operational code'), cats.get(cat, 0)))
    out['ops'] = ops
    out['OPEN_MIN'] = _int(Open.MINIMUM_BODY_SIZE, 'Open.MINIMUM_BODY_SIZE')
    out['OPEN_FIXED'] = _int(Open.HEADER_SIZE, 'Open.HEADER_SIZE')
    out['BGP_4'] = _int(Version.BGP_4, 'Version.BGP_4')
    out['EXTENDED_LENGTH'] = _int(Capabilities.EXTENDED_LENGTH, 'Capabilities.EXTENDED_LENGTH')
    out['P_AUTH'] = _int(capmod.Parameter.AUTHENTIFICATION_INFORMATION, 'Parameter.AUTHENTIFICATION_INFORMATION')
    out['P_CAPS'] = _int(capmod.Parameter.CAPABILITIES, 'Parameter.CAPABILITIES')
    out['MIN_PARAM'] = _int(capmod.MIN_PARAM_LEN, 'MIN_PARAM_LEN')
    out['MIN_EXT_PARAM'] = _int(capmod.MIN_EXTENDED_PARAM_LEN, 'MIN_EXTENDED_PARAM_LEN')
    out['NOTIF_HEADER'] = _int(Notification.HEADER_SIZE, 'Notification.HEADER_SIZE')
    out['SHUT_MAX'] = _int(Notification.SHUTDOWN_COMM_MAX_LEGACY, 'SHUTDOWN_COMM_MAX_LEGACY')
    out['UPD_HDR'] = _int(ucoll.UPDATE_ATTR_LENGTH_HEADER_SIZE, 'UPDATE_ATTR_LENGTH_HEADER_SIZE')
    out['UPD_WOFF'] = _int(ucoll.UPDATE_WITHDRAWN_LENGTH_OFFSET, 'UPDATE_WITHDRAWN_LENGTH_OFFSET')
    out['EOR4'] = _int(ucoll.EOR_IPV4_UNICAST_LENGTH, 'EOR_IPV4_UNICAST_LENGTH')
    out['EORP'] = _int(ucoll.EOR_WITH_PREFIX_LENGTH, 'EOR_WITH_PREFIX_LENGTH')
    from exabgp.bgp.message.update.eor import EOR

    out['EOR_PREFIX'] = list(EOR.EOR_NLRI.PREFIX)
    # the subcode Capabilities.unpack answers an optional parameter of unknown type with (ast: the raise that says so)
    ctree = ast.parse(open(os.path.join(repo, 'src/exabgp/bgp/message/open/capability/capabilities.py')).read())
    subs = []
    for n in ast.walk(ctree):
        if isinstance(n, ast.Raise) and isinstance(n.exc, ast.Call) and getattr(n.exc.func, 'id', '') == 'Notify' and len(n.exc.args) >= 3:
            if 'OPEN parameter' in ast.unparse(n.exc.args[2]) and 'nknow' in ast.unparse(n.exc.args[2]):
                a0, a1 = n.exc.args[0], n.exc.args[1]
                if not (isinstance(a0, ast.Constant) and a0.value == 2 and isinstance(a1, ast.Constant) and isinstance(a1.value, int)):
                    raise Untranslatable('the NOTIFICATION for an unknown OPEN parameter is not Notify(2, <constant>, ...)')
                subs.append(a1.value)
    if len(subs) != 1:
        raise Untranslatable(f'expected one raise for an unknown OPEN parameter in Capabilities.unpack, found {len(subs)}')
    out['UNKNOWN_PARAM_SUB'] = subs[0]
    # which octet selects the RFC 9072 extended encoding (ast: the test that guards `decoder = _extended_type_length`)
    sel = []
    for n in ast.walk(ctree):
        if isinstance(n, ast.If) and any('_extended_type_length' in ast.unparse(x) and isinstance(x, ast.Assign) for x in ast.walk(n)):
            sel.append(ast.unparse(n.test).replace('(', '').replace(')', '').replace(' ', ''))
    old_tests = {'option_len==Capabilities.EXTENDED_LENGTH', 'option_type==Capabilities.EXTENDED_LENGTH'}
    new_test = 'option_len!=0andlendata>=4anddata[1]==Capabilities.EXTENDED_LENGTH'
    if set(sel) == old_tests:
        out['EXT_BY_TYPE_OCTET'] = False      # length octet 255 (needs 4 octets), then type octet 255
    elif sel == [new_test]:
        out['EXT_BY_TYPE_OCTET'] = True       # type octet 255 whatever the non-zero length octet (RFC 9072 2)
    else:
        raise Untranslatable(f'Capabilities.unpack: unrecognised selection of the extended encoding: {sel}')
    # AIGP (RFC 7311): the length of the AIGP TLV and the smallest TLV the walk of from_packet accepts
    from exabgp.bgp.message.update.attribute.aigp import AIGPBase

    out['AIGP_TLV_LENGTH'] = _int(AIGPBase._TLV_LENGTH, 'AIGPBase._TLV_LENGTH')
    atree = ast.parse(open(os.path.join(repo, 'src/exabgp/bgp/message/update/attribute/aigp.py')).read())
    fns = [n for n in ast.walk(atree) if isinstance(n, ast.FunctionDef) and n.name == 'from_packet']
    if len(fns) != 1:
        raise Untranslatable('AIGPBase.from_packet not found (or defined twice)')
    mins = sorted({c.comparators[0].value for c in ast.walk(fns[0]) if isinstance(c, ast.Compare) and len(c.ops) == 1
                   and isinstance(c.ops[0], ast.Lt) and isinstance(c.comparators[0], ast.Constant)
                   and ast.unparse(c.left) in ('tlv_length', 'len(data) - offset')})
    if mins != [3]:
        raise Untranslatable(f'AIGPBase.from_packet: the TLV header size tests are not `< 3`: {mins}')
    types = sorted({c.comparators[0].value for c in ast.walk(fns[0]) if isinstance(c, ast.Compare) and ast.unparse(c.left) == 'tlv_type'
                    and isinstance(c.comparators[0], ast.Constant)})
    if types != [1]:
        raise Untranslatable(f'AIGPBase.from_packet: the AIGP TLV type is not 1: {types}')
    out['AIGP_TLV_HDR'] = 3
    out['AIGP_TLV_TYPE'] = 1
    return out


def generate(repo: str) -> str:
    sh = shape(repo)
    rf = reflect(repo)
    adv = advisory_shape(repo)
    L = ['(* GENERATED by translate/t12_parse_shape.py - do not edit *)',
         'From Coq Require Import ZArith Bool List.', 'Import ListNotations.', 'Open Scope Z_scope.',
         f'(* AttributeCollection.parse: {"calls itself on `left` once per attribute (" + str(sh["self_calls"]) + " tail calls), no loop" if sh["recursive"] else "one `while data:` loop, no call to itself"} *)',
         f'Definition PARSE_IS_RECURSIVE : bool := {"true" if sh["recursive"] else "false"}.',
         f'Definition ATTR_HDR : Z := {sh["min"]}.', f'Definition ATTR_HDR_EXT : Z := {sh["ext"]}.',
         '(* an attribute length overrunning the block: true = `if len(data) < length:` TreatAsWithdraw and stop; false = not tested *)',
         f'Definition OVERRUN_STOPS : bool := {"true" if sh["overrun_stops"] else "false"}.']
    for k in ('F_EXT', 'F_PARTIAL', 'F_TRANSITIVE', 'F_OPTIONAL', 'MASK_PARTIAL'):
        L.append(f'Definition {k} : Z := {rf[k]}.')
    L.append('(* one row per registered attribute code: registration flag (FLAG | EXTENDED_LENGTH), optional, '
             'TREAT_AS_WITHDRAW, DISCARD, NO_DUPLICATE, VALID_ZERO *)')
    L.append('Record arow := mkRow { r_flag : Z; r_optional : bool; r_taw : bool; r_discard : bool; r_nodup : bool; r_vzero : bool }.')
    L.append('Definition attr_row (aid : Z) : option arow :=')
    for aid, r in sorted(rf['rows'].items()):
        L.append(f'  if aid =? {aid} then Some (mkRow {r["flag"]} {r["optional"]} {r["taw"]} {r["discard"]} {r["nodup"]} {r["vzero"]}) (* {r["name"]} *) else')
    L.append('  None.')
    L.append('Definition registered_aids : list Z := [' + '; '.join(str(a) for a in sorted(rf['rows'])) + '].')
    L.append('(* Advisory.ADM/ASM.__init__ accepts the buffer slice Operational.unpack_message passes (false: AttributeError on a memoryview) *)')
    L.append(f'Definition ADVISORY_ACCEPTS_BUFFER : bool := {"true" if adv else "false"}.')
    L.append('(* Operational.registered_operational: code -> category (1 advisory, 2 query, 3 counter, 0 other) *)')
    L.append('Definition operational_table : list (Z * Z) := [' + '; '.join(f'({c}, {k})' for c, k in rf['ops']) + '].')
    for k in ('OPEN_MIN', 'OPEN_FIXED', 'BGP_4', 'EXTENDED_LENGTH', 'P_AUTH', 'P_CAPS', 'MIN_PARAM', 'MIN_EXT_PARAM',
              'NOTIF_HEADER', 'SHUT_MAX', 'UPD_HDR', 'UPD_WOFF', 'EOR4', 'EORP', 'AIGP_TLV_LENGTH', 'AIGP_TLV_HDR', 'AIGP_TLV_TYPE', 'UNKNOWN_PARAM_SUB'):
        L.append(f'Definition {k} : Z := {rf[k]}.')
    L.append('(* RFC 9072 extended optional parameters: true = selected by the type octet alone (length octet non zero), false = length octet 255 first *)')
    L.append(f'Definition EXT_BY_TYPE_OCTET : bool := {"true" if rf["EXT_BY_TYPE_OCTET"] else "false"}.')
    L.append('Definition EOR_PFX : list Z := [' + '; '.join(str(b) for b in rf['EOR_PREFIX']) + '].')
    return '\n'.join(L) + '\n'


def main(repo: str, gen_dir: str) -> None:
    write_if_changed(os.path.join(gen_dir, 'Gen_ParseShape.v'), generate(repo))


if __name__ == '__main__':
    import sys

    print(generate(sys.argv[1] if len(sys.argv) > 1 else '/repo'))
